#include "views.hpp"
using alloc_t = chk_alloc<unsigned char>;
using img_t = gil::image<gil::rgb8_pixel_t, false, alloc_t>;
extern "C" void h_t(void) {
#ifdef CW
    int w = CW, h = CH;
#else
    int w = vp_range(0, 3), h = vp_range(0, 3);
#endif
#if VAR == 0
    img_t a(w, h, (std::size_t)0, alloc_t(1));
    auto t = gil::view(a);
#elif VAR == 4
    img_t a(w, h, (std::size_t)0, alloc_t(1));
    auto q = gil::interleaved_view_get_raw_data(gil::view(a)); auto t = gil::interleaved_view(w, h, (gil::rgb8_pixel_t*)q, w * 3);
#elif VAR == 5
    img_t a(w, h, (std::size_t)0, alloc_t(1));
    auto t0 = gil::view(a);
    auto t = gil::interleaved_view(w, h, (gil::rgb8_pixel_t*)vp_buf(w*h*3), t0.pixels().row_size());
#elif VAR == 6
    alignas(16) static unsigned char store[sizeof(img_t)];
    img_t* ap = new (store) img_t(w, h, (std::size_t)0, alloc_t(1));
    auto q = gil::interleaved_view_get_raw_data(gil::view(*ap)); auto t = gil::interleaved_view(w, h, (gil::rgb8_pixel_t*)q, w * 3);
#elif VAR == 2
    alloc_t al(1); unsigned char* mem = al.allocate(w * h * 3 + 1);
    auto t = gil::interleaved_view(w, h, (gil::rgb8_pixel_t*)mem, w * 3);
#elif VAR == 3
    unsigned char* mem = (unsigned char*)vp_alloc(w * h * 3 + 1, 1);
    vp_assume(mem != 0);
    auto t = gil::interleaved_view(w, h, (gil::rgb8_pixel_t*)mem, w * 3);
#else
    vbuf b; b.get(w * h * 3);
    auto t = gil::interleaved_view(w, h, (gil::rgb8_pixel_t*)b.p, w * 3);
#endif
    int x, y; vp_coord(w, h, x, y);
    gil::rgb8_pixel_t p; vp_fill(&p, sizeof p);
    gil::rgb8_pixel_t r = t(x, y);
    t(x, y) = p;
#if W2 == 1
    t.row_begin(y)[x] = p;
#elif W2 == 2
    t.row_begin(y)[x] = r;
#elif W2 == 4
    r = t.row_begin(y)[x];
#elif W2 == 5
    *t.xy_at(x, y) = p;
#elif W2 == 6
    { auto q = gil::interleaved_view_get_raw_data(t); auto t2 = gil::interleaved_view(w, h, (gil::rgb8_pixel_t*)q, w * 3); t2.row_begin(y)[x] = p; }
#elif W2 == 3
    t(x, y) = r;
#endif
    vp_assert(t(x, y) == p || W2 >= 2, "rb");
}
