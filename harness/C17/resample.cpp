// C17: resample_pixels writes dst(x,y) = sample(src, transform(map,(x,y))) for every destination pixel; resize_view to the same size is
// the identity.
// Compile-time shape: C17_SAMPLER (gil::nearest_neighbor_sampler | gil::bilinear_sampler).
// Run-time-constant shape (vp_param): 0,1 = source width,height; 2,3 = destination width,height; 4,5 = destination pixel under test;
//   6 = matrix family (0: translation, 1: scale, 2: scale then translation).
// Symbolic: every source pixel, the previous contents of the destination, the integer-valued matrix entries (scale factors in [-2,2],
// offsets in [-3,3], stored in double: every coordinate is an exact integer).
// Source and destination are exact-size heap objects.
#include <boost/gil.hpp>
#include <boost/gil/extension/numeric/sampler.hpp>
#include <boost/gil/extension/numeric/resample.hpp>
#include "vp.hpp"
namespace gil = boost::gil;
#ifndef C17_SAMPLER
#define C17_SAMPLER gil::nearest_neighbor_sampler
#endif
using sampler_t = C17_SAMPLER;
static constexpr bool BILINEAR = std::is_same<sampler_t, gil::bilinear_sampler>::value;

struct gbuf {
    unsigned char* p; int w, h;
    gbuf(int w_, int h_) : w(w_), h(h_) { p = (unsigned char*)vp_buf((unsigned long)(w * h)); }
    gil::gray8_view_t view() const { return gil::interleaved_view(w, h, (gil::gray8_pixel_t*)p, w); }
    gil::gray8c_view_t cview() const { return gil::interleaved_view(w, h, (gil::gray8_pixel_t const*)p, w); }
    ~gbuf() { vp_buf_free(p); }
};

extern "C" {
void h_resample(void) {
    int w = vp_param(0), h = vp_param(1), dw = vp_param(2), dh = vp_param(3), ox = vp_param(4), oy = vp_param(5), fam = vp_param(6);
    gbuf s(w, h); vp_fill(s.p, (unsigned long)(w * h));
    gbuf d(dw, dh);
    unsigned char before = vp_nondet_u8();
    for (int i = 0; i < dw * dh; ++i) d.p[i] = before;
    int sx = 1, sy = 1, tx = 0, ty = 0;
    if (fam >= 1) { sx = vp_range(-2, 2); sy = vp_range(-2, 2); }
    if (fam != 1) { tx = vp_range(-3, 3); ty = vp_range(-3, 3); }
    gil::matrix3x2<double> M = fam == 0 ? gil::matrix3x2<double>::get_translate((double)tx, (double)ty)
                             : fam == 1 ? gil::matrix3x2<double>::get_scale((double)sx, (double)sy)
                                        : gil::matrix3x2<double>::get_scale((double)sx, (double)sy) * gil::matrix3x2<double>::get_translate((double)tx, (double)ty);
    gil::resample_pixels(s.cview(), d.view(), M, sampler_t());
    // (1) the property's own statement, for the destination pixel under test
    gil::gray8_pixel_t e(before);
    gil::point<std::ptrdiff_t> dp(ox, oy);
    gil::sample(sampler_t(), s.cview(), gil::transform(M, dp), e);
    vp_assert(d.p[oy * dw + ox] == (unsigned char)e[0], "resample.pixel_equals_sample_of_transformed_point");
    // (2) independent of sample(): the map sends (ox,oy) to the integer point (X,Y)
    long X = (long)sx * ox + tx, Y = (long)sy * oy + ty;
    if (X >= 0 && X < w && Y >= 0 && Y < h) vp_assert(d.p[oy * dw + ox] == s.p[Y * w + X], "resample.integer_map_copies_the_source_pixel");
    else if (!BILINEAR || X < -1 || Y < -1 || X >= w || Y >= h) vp_assert(d.p[oy * dw + ox] == before, "resample.outside_leaves_destination_untouched");
}
// resize_view to the same size is the identity (the matrix it builds contains get_rotate(-0.0): cos/sin at +-0 come from rt_trig0.c)
void h_resize_same(void) {
    int w = vp_param(0), h = vp_param(1);
    gbuf s(w, h); vp_fill(s.p, (unsigned long)(w * h));
    gbuf d(w, h);
    unsigned char before = vp_nondet_u8();
    for (int i = 0; i < w * h; ++i) d.p[i] = before;
    gil::resize_view(s.cview(), d.view(), sampler_t());
    for (int i = 0; i < w * h; ++i) vp_assert(d.p[i] == s.p[i], "resize.same_size_is_identity");
}
}
