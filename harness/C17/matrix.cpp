// C17: matrix3x2 algebra on integer-valued matrices (entries in [-4,4] stored in double: every product and sum below is an exact integer,
// every quotient by a determinant in {+-1,+-2,+-4} is exact, so all equalities are exact).
//   * multiplication is associative
//   * get_translate / get_scale compose as documented (row-vector convention: transform(A*B, p) == transform(B, transform(A, p)))
//   * inverse(m) * m == m * inverse(m) == identity, and a point mapped by m and then by inverse(m) comes back
// Run-time-constant shape (vp_param): h_inverse / h_inverse_point: 0 = the determinant (one of +-1, +-2, +-4), 1 = how many leading entries
// (a,b,c,d order) are concrete, 2.. = their values; h_assoc: 0 = which factor is concrete (-1 none), 1..6 = its entries.
// (Products of three fully symbolic matrices and inverses of fully symbolic matrices had no verdict in 300 s: stratified.)
// Symbolic: every matrix entry / point coordinate (integers in [-4,4]).
#include <boost/gil.hpp>
#include <boost/gil/extension/numeric/affine.hpp>
#include "vp.hpp"
namespace gil = boost::gil;
using M = gil::matrix3x2<double>;

static M sym_matrix() {
    int a = vp_range(-4, 4); int b = vp_range(-4, 4); int c = vp_range(-4, 4);
    int d = vp_range(-4, 4); int e = vp_range(-4, 4); int f = vp_range(-4, 4);
    return M((double)a, (double)b, (double)c, (double)d, (double)e, (double)f);
}
static bool eq(M const& x, M const& y) { return x.a == y.a && x.b == y.b && x.c == y.c && x.d == y.d && x.e == y.e && x.f == y.f; }
// matrix with the first nc entries (a,b,c,d order) taken from vp_param(base..), the rest symbolic
static M part_matrix(int nc, int base, int* out) {
    int v[6];
    for (int i = 0; i < 6; ++i) { if (i < nc) v[i] = vp_param(base + i); else v[i] = vp_range(-4, 4); }
    if (out) for (int i = 0; i < 6; ++i) out[i] = v[i];
    return M((double)v[0], (double)v[1], (double)v[2], (double)v[3], (double)v[4], (double)v[5]);
}
// determinant constraint stated on the integers the entries were made from
static M sym_matrix_det(int det) {
    int v[6]; M m = part_matrix(vp_param(1), 2, v);
    vp_assume(v[0] * v[3] - v[1] * v[2] == det);
    return m;
}

extern "C" {
// vp_param(0): which factor is concrete (-1 none, 0 A, 1 B, 2 C); vp_param(1..6): its entries
void h_assoc(void) {
    int which = vp_param(0);
    M A = part_matrix(which == 0 ? 6 : 0, 1, nullptr); M B = part_matrix(which == 1 ? 6 : 0, 1, nullptr); M C = part_matrix(which == 2 ? 6 : 0, 1, nullptr);
    M L = (A * B) * C, R = A * (B * C);
    vp_assert(L.a == R.a, "matrix.product_associative_a");
    vp_assert(L.b == R.b, "matrix.product_associative_b");
    vp_assert(L.c == R.c, "matrix.product_associative_c");
    vp_assert(L.d == R.d, "matrix.product_associative_d");
    vp_assert(L.e == R.e, "matrix.product_associative_e");
    vp_assert(L.f == R.f, "matrix.product_associative_f");
}
void h_identity(void) {
    M A = sym_matrix(); M I;
    vp_assert(eq(A * I, A) && eq(I * A, A), "matrix.default_is_identity");
    M B = A; B *= I;
    vp_assert(eq(B, A), "matrix.times_assign_identity");
}
void h_compose(void) {
    int tx = vp_range(-4, 4); int ty = vp_range(-4, 4); int ux = vp_range(-4, 4); int uy = vp_range(-4, 4);
    int px = vp_range(-4, 4); int py = vp_range(-4, 4);
    gil::point<double> p((double)px, (double)py);
    M T = M::get_translate((double)tx, (double)ty), U = M::get_translate(gil::point<double>((double)ux, (double)uy));
    M S = M::get_scale((double)tx, (double)ty), V = M::get_scale(gil::point<double>((double)ux, (double)uy));
    // what each factory documents
    gil::point<double> q = gil::transform(T, p);
    vp_assert(q.x == (double)(px + tx) && q.y == (double)(py + ty), "matrix.translate_moves_the_point");
    q = gil::transform(S, p);
    vp_assert(q.x == (double)(px * tx) && q.y == (double)(py * ty), "matrix.scale_scales_the_point");
    q = gil::transform(M::get_scale((double)ux), p);
    vp_assert(q.x == (double)(px * ux) && q.y == (double)(py * ux), "matrix.uniform_scale_scales_the_point");
    // composition
    vp_assert(eq(T * U, M::get_translate((double)(tx + ux), (double)(ty + uy))), "matrix.translations_add");
    vp_assert(eq(S * V, M::get_scale((double)(tx * ux), (double)(ty * uy))), "matrix.scales_multiply");
    // scale then translate / translate then scale: the left factor is applied first
    q = gil::transform(S * U, p);
    vp_assert(q.x == (double)(px * tx + ux) && q.y == (double)(py * ty + uy), "matrix.scale_then_translate");
    q = gil::transform(U * S, p);
    vp_assert(q.x == (double)((px + ux) * tx) && q.y == (double)((py + uy) * ty), "matrix.translate_then_scale");
}
// transform(A*B, p) == transform(B, transform(A, p)) for general matrices
// vp_param(0): which factor is concrete (-1 none, 0 A, 1 B); vp_param(1..6): its entries
void h_compose_general(void) {
    int which = vp_param(0);
    M A = part_matrix(which == 0 ? 6 : 0, 1, nullptr); M B = part_matrix(which == 1 ? 6 : 0, 1, nullptr);
    int px = vp_range(-4, 4); int py = vp_range(-4, 4);
    gil::point<double> p((double)px, (double)py);
    gil::point<double> l = gil::transform(A * B, p), r = gil::transform(B, gil::transform(A, p));
    vp_assert(l.x == r.x && l.y == r.y, "matrix.product_applies_left_factor_first");
    // and the point formula itself
    gil::point<double> q = gil::transform(A, p);
    vp_assert(q.x == A.a * p.x + A.c * p.y + A.e && q.y == A.b * p.x + A.d * p.y + A.f, "matrix.transform_formula");
    gil::point<std::ptrdiff_t> ip(px, py);
    gil::point<double> qi = gil::transform(A, ip);
    vp_assert(qi.x == q.x && qi.y == q.y, "matrix.transform_of_integer_point");
}
void h_inverse(void) {
    int det = vp_param(0);
    M m = sym_matrix_det(det);
    M inv = gil::inverse(m); M I;
    vp_assert(eq(inv * m, I), "matrix.inverse_times_m_is_identity");
    vp_assert(eq(m * inv, I), "matrix.m_times_inverse_is_identity");
}
void h_inverse_point(void) {
    int det = vp_param(0);
    M m = sym_matrix_det(det);
    int px = vp_range(-4, 4); int py = vp_range(-4, 4);
    gil::point<double> p((double)px, (double)py);
    gil::point<double> back = gil::transform(gil::inverse(m), gil::transform(m, p));
    vp_assert(back.x == p.x && back.y == p.y, "matrix.map_then_inverse_returns_the_point");
}
}
