// C17: nearest_neighbor_sampler and bilinear_sampler either report the point as outside and leave the result untouched, or return a
// convex combination of the (up to four) source pixels surrounding the point, equal to the source pixel at integer coordinates; they
// never read outside the source view (the source is an exact-size heap object: any such read is a failed proof obligation).
// Compile-time shape: C17_COORD_T (coordinate type of the sample point: float | double).
// Run-time-constant shape (vp_param): 0,1 = width,height of the gray8 source view;
//   h_bilinear: 2,3 = the cell floor(p) (x0,y0); 4 = grid denominator G (fractions are k/G with symbolic k in 0..G-1; 0 = free fractions
//   in [0,1)); 5,6 = concrete numerators kx,ky (-1 = symbolic); 7 = 1: also compare with the exact interpolated value (integer arithmetic).
//   Interior cells with two symbolic fractions: the exact value had no verdict in 300 s (float sum of four products), there 7 = 0.
// Symbolic: every source pixel, the sample point (nearest: any float in [-2,w+1]x[-2,h+1]; bilinear: the fractions), the previous
// contents of the result pixel.
#include <boost/gil.hpp>
#include <boost/gil/extension/numeric/sampler.hpp>
#include "vp.hpp"
namespace gil = boost::gil;
#ifndef C17_COORD_T
#define C17_COORD_T float
#endif
using F = C17_COORD_T;

struct gsrc {
    unsigned char* p; int w, h;
    gsrc(int w_, int h_) : w(w_), h(h_) { p = (unsigned char*)vp_buf((unsigned long)(w * h)); vp_fill(p, (unsigned long)(w * h)); }
    gil::gray8c_view_t view() const { return gil::interleaved_view(w, h, (gil::gray8_pixel_t const*)p, w); }
    int at(int x, int y) const { return p[y * w + x]; }
    ~gsrc() { vp_buf_free(p); }
};
static F sym_coord(int lo, int hi) { F v = (F)vp_nondet_float(); vp_assume(v >= (F)lo && v <= (F)hi); return v; }

extern "C" {
// ---------------------------------------------------------------------------------------------------------------- nearest neighbour
void h_nearest(void) {
    int w = vp_param(0), h = vp_param(1);
    gsrc s(w, h);
    F px = sym_coord(-2, w + 1);
    F py = sym_coord(-2, h + 1);
    unsigned char before = vp_nondet_u8();
    gil::gray8_pixel_t r(before);
    bool in = gil::sample(gil::nearest_neighbor_sampler(), s.view(), gil::point<F>(px, py), r);
    // documented rounding: half away from zero, computed in the coordinate type
    long cx = (long)(px + (px < 0 ? (F)-0.5 : (F)0.5)), cy = (long)(py + (py < 0 ? (F)-0.5 : (F)0.5));
    bool c_in = cx >= 0 && cy >= 0 && cx < w && cy < h;
    long fx = (long)std::floor((double)px), fy = (long)std::floor((double)py);
    if (in) {
        vp_assert(c_in, "nearest.inside_only_if_rounded_point_in_image");
        // the pixel returned is one of the (up to four) pixels surrounding the point, and the one within half a pixel (+ one rounding of x + 0.5)
        vp_assert((cx == fx || cx == fx + 1) && (cy == fy || cy == fy + 1), "nearest.pixel_surrounds_the_point");
        double dx = (double)cx - (double)px, dy = (double)cy - (double)py;
        vp_assert(dx <= 0.5000001 && dx >= -0.5000001 && dy <= 0.5000001 && dy >= -0.5000001, "nearest.pixel_within_half_a_pixel");
        if (c_in) vp_assert((int)r[0] == s.at((int)cx, (int)cy), "nearest.returns_the_rounded_pixel");
    } else {
        vp_assert((int)r[0] == (int)before, "nearest.outside_leaves_result_untouched");
        vp_assert(!c_in, "nearest.outside_only_if_rounded_point_outside");
        // a point inside the hull of the pixel centres is never outside
        vp_assert(!(px >= 0 && px <= (F)(w - 1) && py >= 0 && py <= (F)(h - 1)), "nearest.hull_points_are_inside");
    }
    // integer coordinates: exactly that source pixel
    if ((F)fx == px && (F)fy == py && fx >= 0 && fy >= 0 && fx < w && fy < h) {
        vp_assert(in, "nearest.integer_point_inside");
        vp_assert((int)r[0] == s.at((int)fx, (int)fy), "nearest.integer_point_returns_that_pixel");
    }
}
// ---------------------------------------------------------------------------------------------------------------- bilinear
void h_bilinear(void) {
    int w = vp_param(0), h = vp_param(1), x0 = vp_param(2), y0 = vp_param(3), G = vp_param(4);
    gsrc s(w, h);
    int kx = 0, ky = 0; F px, py;
    if (G > 0) {
        kx = vp_param(5) >= 0 ? vp_param(5) : vp_range(0, G - 1);
        ky = vp_param(6) >= 0 ? vp_param(6) : vp_range(0, G - 1);
        px = (F)x0 + (F)kx / (F)G; py = (F)y0 + (F)ky / (F)G;
    } else {
        F fx = sym_coord(0, 1); F fy = sym_coord(0, 1);
        px = (F)x0 + fx; py = (F)y0 + fy;
        vp_assume(std::floor(px) == (F)x0 && std::floor(py) == (F)y0);
    }
    unsigned char before = vp_nondet_u8();
    gil::gray8_pixel_t r(before);
    bool in = gil::sample(gil::bilinear_sampler(), s.view(), gil::point<F>(px, py), r);
    // the source pixels surrounding the point: columns x0, x0+1 and rows y0, y0+1 as far as they exist
    int lo = 256, hi = -1, n = 0;
    for (int dy = 0; dy <= 1; ++dy) for (int dx = 0; dx <= 1; ++dx) {
        int x = x0 + dx, y = y0 + dy;
        if (x >= 0 && x < w && y >= 0 && y < h) { int v = s.at(x, y); if (v < lo) lo = v; if (v > hi) hi = v; ++n; }
    }
    if (!in) {
        vp_assert((int)r[0] == (int)before, "bilinear.outside_leaves_result_untouched");
        // a point inside the hull of the pixel centres is never outside
        vp_assert(!(px >= 0 && px <= (F)(w - 1) && py >= 0 && py <= (F)(h - 1)), "bilinear.hull_points_are_inside");
    } else {
        vp_assert(n > 0, "bilinear.inside_only_with_a_surrounding_pixel");
        // convex combination (one unit for the final float -> integer truncation)
        if (n > 0) vp_assert((int)r[0] >= lo - 1 && (int)r[0] <= hi, "bilinear.between_min_and_max_of_surrounding_pixels");
        if (G > 0 && n > 0 && vp_param(7)) {
            // on the grid every weight, product and partial sum is exact: the documented bilinear interpolation, truncated
            int wx[2] = { G - kx, kx }, wy[2] = { G - ky, ky };
            if (x0 < 0) { wx[0] = 0; wx[1] = G; } else if (x0 + 1 >= w) { wx[0] = G; wx[1] = 0; }      // only one column exists: it gets the whole weight
            if (y0 < 0) { wy[0] = 0; wy[1] = G; } else if (y0 + 1 >= h) { wy[0] = G; wy[1] = 0; }
            long acc = 0;
            for (int dy = 0; dy <= 1; ++dy) for (int dx = 0; dx <= 1; ++dx) {
                int x = x0 + dx, y = y0 + dy;
                if (x >= 0 && x < w && y >= 0 && y < h) acc += (long)wx[dx] * wy[dy] * s.at(x, y);
            }
            vp_assert((long)r[0] == acc / ((long)G * G), "bilinear.equals_exact_interpolation_on_the_grid");
        }
    }
    // integer coordinates: exactly that source pixel
    if (G > 0 && kx == 0 && ky == 0 && x0 >= 0 && y0 >= 0 && x0 < w && y0 < h) {
        vp_assert(in, "bilinear.integer_point_inside");
        vp_assert((int)r[0] == s.at(x0, y0), "bilinear.integer_point_returns_that_pixel");
    }
}
}
