// C11: reading any byte sequence as an image terminates safely (BMP, PNM, TARGA through FILE* / file name).
// Compile-time shape: FORMAT (1 bmp, 2 pnm, 3 targa), ENTRY (1 read_image, 2 read_image_info, 3 read_view, 4 read_and_convert_image,
// 5 scanline reader, 6 read_and_convert_view), DEV (1 FILE*, 2 file name), PIX (destination pixel type).
// Run-time-constant shape: vp_param(0) = file length L, vp_param(1..) = the format's control-flow-deciding header fields (io.hpp).
// Symbolic: every other byte of the file.
// Oracles: object bounds on every buffer (model checker), unwinding assertions (no unbounded loop), generated ub.* obligations,
// outcome is a normal return or a C++ exception of an expected type, the stream is closed, header parsing is deterministic.
#include "../io/io.hpp"
#include <istream>
#if FORMAT == 1
#include <boost/gil/extension/io/bmp.hpp>
using tag_t = gil::bmp_tag;
static void make_file(file_builder& f) { bmp_file(f, 1); }
#elif FORMAT == 2
#include <boost/gil/extension/io/pnm.hpp>
using tag_t = gil::pnm_tag;
static void make_file(file_builder& f) { pnm_file(f, 1); }
#else
#include <boost/gil/extension/io/targa.hpp>
using tag_t = gil::targa_tag;
static void make_file(file_builder& f) { targa_file(f, 1); }
#endif
#ifndef PIX
#define PIX gil::rgb8_pixel_t
#endif
using img_t = gil::image<PIX, false>;

extern "C" void h_read(void) {
    file_builder f((unsigned long)vp_param(0));
#if CONCRETE_REST   /* every byte the builder does not set is zero: the file is fully concrete */
    for (unsigned long i = 0; i < f.L; ++i) f.d[i] = 0;
#endif
    make_file(f);
    int outcome = 0;
    {
        img_t img;
        try {
#if DEV == 1
            FILE* fp = (FILE*)vp_fopen_read();
#elif DEV == 3
            std::istream& fp = *static_cast<std::istream*>(vp_istream());
#else
            const char* fp = vp_file_name();
#endif
#if ENTRY == 1
            gil::read_image(fp, img, tag_t());
#elif ENTRY == 2
            auto info = gil::read_image_info(fp, tag_t())._info;
            (void)info;
#elif ENTRY == 3
            img.recreate(vp_param(12), vp_param(13));
            gil::read_view(fp, gil::view(img), tag_t());
#elif ENTRY == 4
            gil::read_and_convert_image(fp, img, tag_t());
#elif ENTRY == 6
            img.recreate(vp_param(12), vp_param(13));
            gil::read_and_convert_view(fp, gil::view(img), tag_t());
#elif ENTRY == 5
            {
                using device_t = typename gil::get_read_device<typename std::remove_reference<decltype(fp)>::type, tag_t>::type;
                using reader_t = gil::scanline_reader<device_t, tag_t>;
#if DEV == 1 || DEV == 3
                device_t dev(fp);
#else
                device_t dev(fp, typename gil::detail::file_stream_device<tag_t>::read_tag());
#endif
                reader_t reader(dev, gil::image_read_settings<tag_t>());
                std::vector<gil::byte_t> row(reader._scanline_length);
                for (int y = 0; y < (int)reader._info._height && y < 4; ++y) reader.read(&row[0], y);
            }
#endif
            outcome = 1;
        }
        catch (std::ios_base::failure const&) { outcome = 2; }
        catch (std::bad_alloc const&) { outcome = 3; }
        catch (std::length_error const&) { outcome = 4; }
        catch (...) { outcome = 5; }
        vp_assert(outcome != 0 && outcome != 5, "io.outcome_is_return_or_expected_exception");
        vp_assert(!vp_file_is_open(), "io.stream_closed");
#if CONCRETE_REST
        if (EXPECT_OUTCOME) vp_assert(outcome == EXPECT_OUTCOME, "io.concrete_file_outcome_as_expected");
#endif
    }
}
#if ENTRY == 2 && (DEV == 1 || DEV == 3)
// the header is parsed twice from the same bytes: a parser that uses uninitialised memory (short read) as data gives two different answers
extern "C" void h_info_twice(void) {
    file_builder f((unsigned long)vp_param(0));
    make_file(f);
    long w1 = -1, h1 = -1, x1 = -1, w2 = -2, h2 = -2, x2 = -2; int ok1 = 0, ok2 = 0;
#if DEV == 3
#define OPEN_DEV std::istream& fp = *static_cast<std::istream*>(vp_istream())
#else
#define OPEN_DEV FILE* fp = (FILE*)vp_fopen_read()
#endif
#if FORMAT == 1
#define EXTRA_FIELD(i) ((long)(i)._bits_per_pixel * 65536 + (long)(i)._compression)
#elif FORMAT == 2
#define EXTRA_FIELD(i) ((long)(i)._max_value)
#else
#define EXTRA_FIELD(i) ((long)(i)._bits_per_pixel * 65536 + (long)(i)._image_type * 256 + (long)(i)._descriptor)
#endif
    // in the model uninitialised locals are arbitrary values: a header field assembled from bytes that a short read never filled differs
    // between the two parses.  Natively such bytes hold stale stack contents (deterministic), so the replay of these labels runs an
    // unoptimised build under valgrind memcheck and is confirmed by its report of a use of uninitialised bytes inside boost::gil
    try { OPEN_DEV; auto b = gil::read_image_info(fp, tag_t()); w1 = (long)b._info._width; h1 = (long)b._info._height; x1 = EXTRA_FIELD(b._info); ok1 = 1; } catch (std::ios_base::failure const&) { ok1 = 2; }
    try { OPEN_DEV; auto b = gil::read_image_info(fp, tag_t()); w2 = (long)b._info._width; h2 = (long)b._info._height; x2 = EXTRA_FIELD(b._info); ok2 = 1; } catch (std::ios_base::failure const&) { ok2 = 2; }
    vp_assert(ok1 == ok2, "io.header_outcome_deterministic");
    if (ok1 == 1 && ok2 == 1) vp_assert(w1 == w2 && h1 == h2 && x1 == x2, "io.header_values_deterministic");
}
#endif
