// probe: BMP read_image from the FILE* model
#include <boost/gil.hpp>
#include <boost/gil/extension/io/bmp.hpp>
#include <cstdio>
#include "vp.hpp"
namespace gil = boost::gil;
extern "C" void h_read(void) {
    int L = vp_param(0);
    vp_file_init(L);
    unsigned char* d = vp_file_data();
    if (L > 1) { d[0] = 'B'; d[1] = 'M'; }
    // selector fields concrete: header size, bits per pixel, compression; dimensions small
    if (L > 17) { d[14] = (unsigned char)vp_param(1); d[15] = 0; d[16] = 0; d[17] = 0; }
    if (L > 29) { d[28] = (unsigned char)vp_param(2); d[29] = 0; }
    if (L > 33) { d[30] = (unsigned char)vp_param(3); d[31] = 0; d[32] = 0; d[33] = 0; }
    if (L > 21) { d[18] = (unsigned char)vp_param(4); d[19] = 0; d[20] = 0; d[21] = 0; }
    if (L > 25) { d[22] = (unsigned char)vp_param(5); d[23] = 0; d[24] = 0; d[25] = 0; }
    FILE* f = (FILE*)vp_fopen_read();
    gil::rgb8_image_t img;
    int outcome = 0;
    try { gil::read_image(f, img, gil::bmp_tag()); outcome = 1; }
    catch (std::ios_base::failure const&) { outcome = 2; }
    catch (std::bad_alloc const&) { outcome = 3; }
    catch (std::length_error const&) { outcome = 4; }
    vp_assert(outcome != 0, "io.outcome_is_return_or_exception");
    vp_assert(!vp_file_is_open(), "io.stream_closed");
}
