// C02: view transformations are exact, copy-free coordinate remappings.
// Shape parameters (-D): SRC (source view factory), XF1, XF2 (transformations, applied XF1 then XF2).
// Symbolic: w,h in 0..VP_MAXDIM, row padding, transformation parameters, coordinates, written pixel, probed byte.
#include "views.hpp"
#ifndef XF2
#define XF2 xf_id
#endif
extern "C" {
// (i) documented dimensions, (ii) pixel identity under the documented coordinate formula
void h_xf(void) {
    SRC s; auto v = s.make();
    XF1 f1; f1.init(s.w, s.h);
    auto m = f1.apply(v);
    int w1 = f1.ow(s.w, s.h), h1 = f1.oh(s.w, s.h);
    XF2 f2; f2.init(w1, h1);
    auto t = f2.apply(m);
    int w2 = f2.ow(w1, h1), h2 = f2.oh(w1, h1);
    vp_assert(t.width() == w2 && t.height() == h2, "xf.dims");
    vp_assert(t.dimensions().x == w2 && t.dimensions().y == h2, "xf.dimensions()");
    int x, y; vp_coord(w2, h2, x, y);
    int mx, my; f2.map(x, y, w1, h1, mx, my);
    int sx, sy; f1.map(mx, my, s.w, s.h, sx, sy);
#if ADDRESSABLE
    vp_assert(same_px(t(x, y), v(sx, sy)), "xf.pixel_identity");
#else
    s.prepare(sx, sy);
    vp_assert(t(x, y) == v(sx, sy), "xf.pixel_value");
#endif
}
#if ADDRESSABLE
// (iii) shallow: a write through the derived view changes exactly the bits of the corresponding source pixel
void h_xf_write(void) {
    SRC s; auto v = s.make();
    XF1 f1; f1.init(s.w, s.h);
    auto m = f1.apply(v);
    int w1 = f1.ow(s.w, s.h), h1 = f1.oh(s.w, s.h);
    XF2 f2; f2.init(w1, h1);
    auto t = f2.apply(m);
    int w2 = f2.ow(w1, h1), h2 = f2.oh(w1, h1);
    int x, y; vp_coord(w2, h2, x, y);
    int mx, my; f2.map(x, y, w1, h1, mx, my);
    int sx, sy; f1.map(mx, my, s.w, s.h, sx, sy);
    int k = vp_range(0, SRC::nplanes - 1);
    unsigned long i = vp_nondet_u64(); vp_assume(i < s.plane_size());
    unsigned char before = vp_nondet_u8();
    s.plane(k)[i] = before;
    typename SRC::view_t::value_type p;
    vp_fill(&p, sizeof p);
    t(x, y) = p;
    unsigned char after = s.plane(k)[i];
    unsigned char mask = s.mask_of(sx, sy, k, i);
    vp_assert(((before ^ after) & (unsigned char)~mask) == 0, "xf.write_touches_only_target_pixel");
    vp_assert(v(sx, sy) == p, "xf.write_reaches_source_pixel");
}
#endif
}

// nth_channel_view / kth_channel_view: same dimensions; channel 0 of the derived pixel is channel n of the source pixel (address identity
// for memory-based sources, value for function-object sources); the relation survives the shallow conversion of the derived view to its
// const view type (construction and assignment) and a further transformation XF1 applied on top.
#if NTH
extern "C" void h_nth(void) {
    SRC s; auto v = s.make();
    int n = vp_range(0, (int)gil::num_channels<typename SRC::view_t>::value - 1);
    auto c = gil::nth_channel_view(v, n);
    XF1 f1; f1.init(s.w, s.h);
    auto t = f1.apply(c);
    int w1 = f1.ow(s.w, s.h), h1 = f1.oh(s.w, s.h);
    vp_assert(c.width() == s.w && c.height() == s.h && t.width() == w1 && t.height() == h1, "nth.dims");
    int x, y; vp_coord(w1, h1, x, y);
    int sx, sy; f1.map(x, y, s.w, s.h, sx, sy);
    typename decltype(t)::const_t ct(t);
    typename decltype(t)::const_t ct2; ct2 = t;
#if ADDRESSABLE
    vp_assert(&t(x, y)[0] == &v(sx, sy)[n], "nth.channel_identity");
    vp_assert(&ct(x, y)[0] == &v(sx, sy)[n] && &ct2(x, y)[0] == &v(sx, sy)[n], "nth.channel_identity_after_const_conversion");
    // shallow write: exactly the bytes of channel n of the source pixel change
    int k = vp_range(0, SRC::nplanes - 1);
    unsigned long i = vp_nondet_u64(); vp_assume(i < s.plane_size());
    unsigned char before = vp_nondet_u8();
    s.plane(k)[i] = before;
    typename gil::channel_type<typename SRC::view_t>::type val; vp_fill(&val, sizeof val);
    t(x, y)[0] = val;
    unsigned char after = s.plane(k)[i];
    unsigned char mask = s.chan_mask_of(sx, sy, n, k, i);
    vp_assert(((before ^ after) & (unsigned char)~mask) == 0, "nth.write_touches_only_that_channel");
    vp_assert(v(sx, sy)[n] == val, "nth.write_reaches_source_channel");
#else
    s.prepare(sx, sy);
    vp_assert(t(x, y)[0] == v(sx, sy)[n], "nth.channel_value");
    vp_assert(ct(x, y)[0] == v(sx, sy)[n] && ct2(x, y)[0] == v(sx, sy)[n], "nth.channel_value_after_const_conversion");
#endif
}
#endif
