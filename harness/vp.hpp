// Harness-side interface to the runtime model.  Everything a harness learns about the world comes through here.
#pragma once
#include <cstddef>
#include <cstdint>
#include <new>
#include <type_traits>
extern "C" {
unsigned char vp_nondet_u8(void);
unsigned short vp_nondet_u16(void);
unsigned int vp_nondet_u32(void);
int vp_nondet_int(void);
unsigned long vp_nondet_u64(void);
float vp_nondet_float(void);
double vp_nondet_double(void);
void vp_assume(int);
void vp_assert(int, const char*);
void* vp_alloc(unsigned long n, int id);
void vp_free(void* p, unsigned long n, int id);
void vp_set_fail_at(int k);
int vp_alloc_calls(void);
int vp_live_blocks(void);
int vp_live_blocks_of(int id);
unsigned long vp_block_size_of(void* p);
int vp_in_live_block(void const* p, unsigned long n, int id);
void vp_check_no_leak(void);
unsigned long vp_addr(void const* p);
void* vp_buf(unsigned long n);
void vp_buf_free(void* p);
int vp_new_live(void);
int vp_param(int k);
void vp_fill_n(void* p, unsigned long n);
// in-memory file model (rt module 'file'): one file, accessed through FILE* / file name
unsigned char* vp_file_data(void);          // the file's bytes (harness may constrain / overwrite selected bytes before opening)
unsigned long vp_file_size(void);           // current length (after writing: what was written)
void vp_file_init(unsigned long len);       // file of exactly len bytes, every byte symbolic
void vp_file_set_len(unsigned long len);
struct _IO_FILE; struct _IO_FILE* vp_fopen_read(void); struct _IO_FILE* vp_fopen_write(void);
const char* vp_file_name(void);             // name that fopen() maps to the model file
int vp_file_is_open(void);
void* vp_ostream(void);                      // a std::ostream writing the model file from its start (rt module 'ios'); call vp_ostream_done() before reading the file back
void vp_ostream_done(void);
void* vp_istream(void);                      // a std::istream over the model file (rt module 'ios'); use *static_cast<std::istream*>(vp_istream())   // concrete shape parameter k of the query
}
// symbolic int in [lo,hi]; one nondet call per statement so that evaluation order is fixed
static inline int vp_range(int lo, int hi) { int v = vp_nondet_int(); vp_assume(v >= lo && v <= hi); return v; }
// fill n bytes with symbolic data
static inline void vp_fill(void* p, unsigned long n) { vp_fill_n(p, n); }

// checking allocator: forwards to the ledger in the runtime model
template <class T, bool POCMA = false, bool POCCA = false, bool POCS = true>
struct chk_alloc {
    using value_type = T;
    using propagate_on_container_move_assignment = std::integral_constant<bool, POCMA>;
    using propagate_on_container_copy_assignment = std::integral_constant<bool, POCCA>;
    using propagate_on_container_swap = std::integral_constant<bool, POCS>;
    int id;
    chk_alloc(int i = 0) : id(i) {}
    template <class U> chk_alloc(chk_alloc<U, POCMA, POCCA, POCS> const& o) : id(o.id) {}
    T* allocate(std::size_t n) { void* p = vp_alloc(n * sizeof(T), id); if (!p) throw std::bad_alloc(); return (T*)p; }
    void deallocate(T* p, std::size_t n) { vp_free(p, n * sizeof(T), id); }
    template <class U> struct rebind { using other = chk_alloc<U, POCMA, POCCA, POCS>; };
    friend bool operator==(chk_alloc const& a, chk_alloc const& b) { return a.id == b.id; }
    friend bool operator!=(chk_alloc const& a, chk_alloc const& b) { return a.id != b.id; }
};
