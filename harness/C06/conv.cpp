// C06: channel_convert is the order-preserving linear range map with exact end points.
// Shape parameters: SRC_T, DST_T (channel models); for 32-bit integer sources vp_param(0)=1 selects stratified mode in which
// vp_param(1) is the concrete upper half of the value and the lower 16 bits stay symbolic.
#include <boost/gil.hpp>
#include "vp.hpp"
namespace gil = boost::gil;
using i128 = __int128;

template <class C, class = void> struct chan;
// built-in integral channels
template <class C> struct chan<C, typename std::enable_if<std::is_integral<C>::value>::type> {
    static constexpr bool integral = true;
    static constexpr int bits = sizeof(C) * 8;
    static C sym() {
        if (sizeof(C) == 1) return (C)vp_nondet_u8();
        if (sizeof(C) == 2) return (C)vp_nondet_u16();
        if (vp_param(0) == 1) { unsigned lo = vp_nondet_u16(); return (C)(((unsigned)vp_param(1) << 16) | lo); }
        return (C)vp_nondet_u32();
    }
    static i128 num(C x) { return (i128)x; }
    static i128 lo() { return (i128)std::numeric_limits<C>::min(); }
    static i128 hi() { return (i128)std::numeric_limits<C>::max(); }
};
template <int N> struct chan<gil::packed_channel_value<N>, void> {
    using C = gil::packed_channel_value<N>;
    static constexpr bool integral = true;
    static constexpr int bits = N;
    static C sym() { unsigned v = (N <= 8) ? vp_nondet_u8() : (N <= 16 ? vp_nondet_u16() : vp_nondet_u32()); vp_assume(v <= (unsigned)((1ull << N) - 1)); return C((typename C::integer_t)v); }
    static i128 num(C x) { return (i128)(typename C::integer_t)x; }
    static i128 lo() { return 0; }
    static i128 hi() { return (i128)((1ull << N) - 1); }
};
template <> struct chan<gil::float32_t, void> {
    using C = gil::float32_t;
    static constexpr bool integral = false;
    static constexpr int bits = 24;
    static C sym() { float f = vp_nondet_float(); vp_assume(f >= 0.0f && f <= 1.0f); return C(f); }
    static double val(C x) { return (double)(float)x; }
};
using S = SRC_T; using D = DST_T;
using cs = chan<S>; using cd = chan<D>;
static D conv(S x) { return gil::channel_convert<D>(x); }

// order / value helpers that work for integral and float channels
template <class C> static typename std::enable_if<chan<C>::integral, bool>::type le(C a, C b) { return chan<C>::num(a) <= chan<C>::num(b); }
template <class C> static typename std::enable_if<!chan<C>::integral, bool>::type le(C a, C b) { return (float)a <= (float)b; }
template <class C> static C cmin() { return gil::channel_traits<C>::min_value(); }
template <class C> static C cmax() { return gil::channel_traits<C>::max_value(); }

extern "C" {
// (1) end points
void h_ends(void) {
    D lo = conv(cmin<S>()), hi = conv(cmax<S>());
    vp_assert(le(lo, cmin<D>()) && le(cmin<D>(), lo), "conv.min_to_min");
    vp_assert(le(hi, cmax<D>()) && le(cmax<D>(), hi), "conv.max_to_max");
}
// (2) range
void h_range(void) {
    S x = cs::sym();
    D y = conv(x);
    vp_assert(le(cmin<D>(), y) && le(y, cmax<D>()), "conv.in_range");
}
// (3) monotone: x <= y => f(x) <= f(y) for all x,y  <=>  f(x) <= f(succ(x)) for every x below the maximum
// (chain argument over the finite, totally ordered value set); succ of a non-negative float is the next bit pattern
#if SRC_INT
static S succ(S x) { vp_assume(cs::num(x) < cs::hi()); return S((typename std::conditional<(sizeof(S) > 4), long long, long long>::type)(cs::num(x) + 1)); }
#else
static S succ(S x) { float f = (float)x; unsigned b; __builtin_memcpy(&b, &f, 4); vp_assume(b < 0x80000000u); b += 1; float g; __builtin_memcpy(&g, &b, 4); vp_assume(g <= 1.0f); return S(g); }
#endif
void h_mono(void) {
    S x = cs::sym(); S y = succ(x);
    vp_assert(le(conv(x), conv(y)), "conv.monotone");
}
#if SRC_INT && DST_INT
// (4) within one destination unit of the exact linear rescaling (integer arithmetic, no rounding in the oracle)
void h_lin(void) {
    S x = cs::sym();
    D y = conv(x);
    i128 rs = cs::hi() - cs::lo(), rd = cd::hi() - cd::lo();
    i128 e = (cd::num(y) - cd::lo()) * rs - (cs::num(x) - cs::lo()) * rd;
    vp_assert(e < rs && -e < rs, "conv.within_one_unit");
}
// (5) to a channel with at least as many levels and back
#if ROUNDTRIP
void h_round(void) {
    S x = cs::sym();
    S z = gil::channel_convert<S>(conv(x));
    vp_assert(cs::num(z) == cs::num(x), "conv.round_trip");
}
#endif
#endif
#if !SRC_INT && DST_INT
// float -> integral: within one unit (+ float32 rounding of x*max) of x * range
void h_lin(void) {
    S x = cs::sym();
    D y = conv(x);
    double rd = (double)(cd::hi() - cd::lo());
    double exact = cs::val(x) * rd;
    double got = (double)(cd::num(y) - cd::lo());
    double tol = 1.0 + rd * (1.0 / 8388608.0);
    vp_assert(got - exact <= tol && exact - got <= tol, "conv.within_one_unit_float_src");
}
#endif
#if SRC_INT && !DST_INT
// integral -> float: within float32 precision of x / range
void h_lin(void) {
    S x = cs::sym();
    D y = conv(x);
    double rs = (double)(cs::hi() - cs::lo());
    double num = (double)(cs::num(x) - cs::lo());
    double e = cd::val(y) * rs - num;
    double tol = rs * (1.0 / 4194304.0);
    vp_assert(e <= tol && -e <= tol, "conv.within_float_precision");
}
#if ROUNDTRIP
void h_round(void) {
    S x = cs::sym();
    S z = gil::channel_convert<S>(conv(x));
    vp_assert(cs::num(z) == cs::num(x), "conv.round_trip_via_float");
}
#endif
#endif
#if SAME
// (6) identity
void h_ident(void) {
    S x = cs::sym();
    D y = conv(x);
    vp_assert(le(x, y) && le(y, x), "conv.identity");
}
#endif
}
