// C05: construction, assignment, equality and the static_* colour-base algorithms pair channels by colour name.
//
// One TU = one ordered pair (A = destination / first argument, B = source / second argument) of pixel models:
//   LAY_A, LAY_B     layouts of the same colour space (e.g. gil::bgr_layout_t)
//   MAP_A, MAP_B     the EXPECTED channel mapping, written down independently of the library (props/C05.py): colour J of the colour
//                    space (J = its index in rgb_t / rgba_t / ...) lives in memory slot MAP[J]  (bgr: 2,1,0; argb: 1,2,3,0)
//   MODEL_A, MODEL_B 0 pixel value, 1 C++ reference to a pixel inside an interleaved buffer, 2 planar_pixel_reference,
//                    3 packed_pixel value, 4 bit_aligned_pixel_reference          (0..2: uint8_t channels; 3..4: WIDTHS bits per colour)
//   SIZES_A, SIZES_B packed models: channel bit sizes in MEMORY order (= WIDTHS permuted by MAP)
//   SINGLE           1 when A and B are the same type: the single-colour-base entry points are compiled too
//   CONSTRUCT_REF    1 when A is a planar reference and B an interleaved pixel whose layout is a gil::layout<> specialisation
//                    (planar_pixel_reference(pixel<C, layout<CS, Mapping>>&) does not accept the derived devicen_layout_t)
// Reference model: every model exposes raw(m) = value of memory slot m read straight from the bytes / bits of its storage, and
// slot(c) = the memory slot a channel reference c designates (by address / first bit).  "Paired by colour" then reads
//   for every colour J:  dst.raw(MAP_A[J]) == src.raw(MAP_B[J]).
#include <boost/gil.hpp>
#include <utility>
#include "vp.hpp"
namespace gil = boost::gil;
namespace mp11 = boost::mp11;

constexpr int N = NCH;
constexpr int MAPA[] = { MAP_A };
constexpr int MAPB[] = { MAP_B };
static_assert(sizeof(MAPA) / sizeof(int) == N && sizeof(MAPB) / sizeof(int) == N, "mapping length");
using cs_t = LAY_A::color_space_t;
static_assert(std::is_same<cs_t, LAY_B::color_space_t>::value, "same colour space");
static_assert(mp11::mp_size<cs_t>::value == N, "NCH");
template <int J> using color_c = mp11::mp_at_c<cs_t, J>;
#ifndef SIZES_A
#define SIZES_A 8
#define SIZES_B 8
#endif
constexpr int SZA[] = { SIZES_A };
constexpr int SZB[] = { SIZES_B };

// value of a channel (built-in or proxy) as an integer
static unsigned long val(std::uint8_t c) { return c; }
template <class C> static auto val(C const& c) -> decltype((unsigned long)(typename C::integer_t)c) { return (unsigned long)(typename C::integer_t)c; }

// compile-time loop over J = 0..N-1:  f.template at<J>()
template <int J, bool = (J < N)> struct each { template <class F> static void run(F& f) { f.template at<J>(); each<J + 1>::run(f); } };
template <int J> struct each<J, false> { template <class F> static void run(F&) {} };

// ------------------------------------------------------------------------------------------------ models
// 0: pixel value (a local object)
template <class L, const int* SZ> struct m_val {
    using px_t = gil::pixel<std::uint8_t, L>; using value_t = px_t;
    static constexpr bool homogeneous = true, is_value = true;
    px_t px;
    m_val() { vp_fill(&px, sizeof px); }
    px_t& ref() { return px; }
    px_t const& cref() const { return px; }
    static unsigned long raw_of(value_t const& v, int m) { return ((unsigned char const*)&v)[m]; }
    unsigned long raw(int m) const { return raw_of(px, m); }
    int slot(std::uint8_t const& c) const { long d = &c - (std::uint8_t const*)&px; return (d >= 0 && d < N) ? (int)d : -1; }
    bool frame_ok() const { return true; }
};
// 1: C++ reference to the middle one of three pixels in an exact-size heap buffer
template <class L, const int* SZ> struct m_ref {
    using px_t = gil::pixel<std::uint8_t, L>; using value_t = px_t;
    static constexpr bool homogeneous = true, is_value = false;
    unsigned char* buf; unsigned char before[3 * N];
    m_ref() { buf = (unsigned char*)vp_buf(3 * N); vp_fill(buf, 3 * N); for (int i = 0; i < 3 * N; ++i) before[i] = buf[i]; }
    ~m_ref() { vp_buf_free(buf); }
    px_t& ref() { return ((px_t*)buf)[1]; }
    px_t const& cref() const { return ((px_t const*)buf)[1]; }
    static unsigned long raw_of(value_t const& v, int m) { return ((unsigned char const*)&v)[m]; }
    unsigned long raw(int m) const { return buf[N + m]; }
    int slot(std::uint8_t const& c) const { long d = &c - (buf + N); return (d >= 0 && d < N) ? (int)d : -1; }
    bool frame_ok() const { bool ok = true; for (int i = 0; i < 3 * N; ++i) if (i < N || i >= 2 * N) ok = ok && buf[i] == before[i]; return ok; }
};
// 2: planar reference: N planes of three bytes each in one exact-size heap buffer, the reference designates element 1 of each plane
template <class L, const int* SZ> struct m_planar {
    using value_t = gil::pixel<std::uint8_t, gil::layout<cs_t>>;
    using ref_t = gil::planar_pixel_reference<std::uint8_t&, cs_t>;
    using cref_t = gil::planar_pixel_reference<std::uint8_t const&, cs_t>;
    static_assert(std::is_same<typename L::channel_mapping_t, typename gil::layout<cs_t>::channel_mapping_t>::value, "planar references have the canonical layout");
    static constexpr bool homogeneous = true, is_value = false;
    unsigned char* buf; unsigned char before[3 * N];
    m_planar() { buf = (unsigned char*)vp_buf(3 * N); vp_fill(buf, 3 * N); for (int i = 0; i < 3 * N; ++i) before[i] = buf[i]; }
    ~m_planar() { vp_buf_free(buf); }
    template <std::size_t... I> ref_t mk(std::index_sequence<I...>) const { return ref_t(buf[3 * I + 1]...); }
    template <std::size_t... I> cref_t cmk(std::index_sequence<I...>) const { return cref_t(buf[3 * I + 1]...); }
    ref_t ref() { return mk(std::make_index_sequence<N>()); }
    cref_t cref() const { return cmk(std::make_index_sequence<N>()); }
    static unsigned long raw_of(value_t const& v, int m) { return ((unsigned char const*)&v)[m]; }
    unsigned long raw(int m) const { return buf[3 * m + 1]; }
    int slot(std::uint8_t const& c) const { long d = &c - buf; return (d >= 0 && d < 3 * N && d % 3 == 1) ? (int)(d / 3) : -1; }
    bool frame_ok() const { bool ok = true; for (int i = 0; i < 3 * N; ++i) if (i % 3 != 1) ok = ok && buf[i] == before[i]; return ok; }
};
// packed helpers: first bit of memory slot m, slot of a first bit
static int fb_of(const int* sz, int m) { int s = 0; for (int i = 0; i < m; ++i) s += sz[i]; return s; }
static int slot_of_fb(const int* sz, long fb) { int r = -1; for (int m = 0; m < N; ++m) if (fb_of(sz, m) == fb) r = m; return r; }
template <class SizesList> struct sizes_of;
// 3: packed_pixel value (a local object, 8-bit carrier)
template <class L, const int* SZ, unsigned... S> struct m_packed_impl {
    using px_t = typename gil::packed_pixel_type<std::uint8_t, mp11::mp_list_c<unsigned, S...>, L>::type; using value_t = px_t;
    static constexpr bool homogeneous = false, is_value = true;
    px_t px;
    m_packed_impl() { px._bitfield = vp_nondet_u8(); }
    px_t& ref() { return px; }
    px_t const& cref() const { return px; }
    static unsigned long raw_of(value_t const& v, int m) { return ((unsigned long)v._bitfield >> fb_of(SZ, m)) & ((1ul << SZ[m]) - 1); }
    unsigned long raw(int m) const { return raw_of(px, m); }
    template <class BF, int FB, int NB, bool M> int slot(gil::packed_channel_reference<BF, FB, NB, M> const& c) const {
        return ((void const*)&c == (void const*)&px._bitfield) ? slot_of_fb(SZ, FB) : -1; }
    bool frame_ok() const { return true; }
};
// 4: bit-aligned reference: pixel at byte 1, bit 3 of a four-byte exact-size heap buffer (16-bit BitField = pixel bits + 7 rounded up)
template <class L, const int* SZ, unsigned... S> struct m_bital_impl {
    using sizes_t = mp11::mp_list_c<unsigned, S...>;
    using ref_t = gil::bit_aligned_pixel_reference<std::uint16_t, sizes_t, L, true>;
    using cref_t = gil::bit_aligned_pixel_reference<std::uint16_t, sizes_t, L, false>;
    using value_t = typename ref_t::value_type;
    static constexpr bool homogeneous = false, is_value = false;
    static constexpr int START = 8 + 3, BITS = ref_t::bit_size;
    unsigned char* buf; unsigned char before[4];
    m_bital_impl() { buf = (unsigned char*)vp_buf(4); vp_fill(buf, 4); for (int i = 0; i < 4; ++i) before[i] = buf[i]; }
    ~m_bital_impl() { vp_buf_free(buf); }
    ref_t ref() { return ref_t(buf + 1, 3); }
    cref_t cref() const { return cref_t(buf + 1, 3); }
    static unsigned long raw_of(value_t const& v, int m) { return ((unsigned long)v._bitfield >> fb_of(SZ, m)) & ((1ul << SZ[m]) - 1); }
    unsigned long raw(int m) const { return (word(buf) >> (START + fb_of(SZ, m))) & ((1ul << SZ[m]) - 1); }
    template <class BF, int NB, bool M> int slot(gil::packed_dynamic_channel_reference<BF, NB, M> const& c) const {
        long g = ((unsigned char const*)&c - buf) * 8 + (long)c.first_bit(); return slot_of_fb(SZ, g - START); }
    static unsigned long word(unsigned char const* p) { return (unsigned long)p[0] | ((unsigned long)p[1] << 8) | ((unsigned long)p[2] << 16) | ((unsigned long)p[3] << 24); }
    bool frame_ok() const { unsigned long mask = ((1ul << BITS) - 1) << START; return ((word(buf) ^ word(before)) & ~mask) == 0; }
};
template <class L, const int* SZ> using m_packed_a = m_packed_impl<L, SZ, SIZES_A>;
template <class L, const int* SZ> using m_packed_b = m_packed_impl<L, SZ, SIZES_B>;
template <class L, const int* SZ> using m_bital_a = m_bital_impl<L, SZ, SIZES_A>;
template <class L, const int* SZ> using m_bital_b = m_bital_impl<L, SZ, SIZES_B>;

#if MODEL_A == 0
using MA = m_val<LAY_A, SZA>;
#elif MODEL_A == 1
using MA = m_ref<LAY_A, SZA>;
#elif MODEL_A == 2
using MA = m_planar<LAY_A, SZA>;
#elif MODEL_A == 3
using MA = m_packed_a<LAY_A, SZA>;
#else
using MA = m_bital_a<LAY_A, SZA>;
#endif
#if MODEL_B == 0
using MB = m_val<LAY_B, SZB>;
#elif MODEL_B == 1
using MB = m_ref<LAY_B, SZB>;
#elif MODEL_B == 2
using MB = m_planar<LAY_B, SZB>;
#elif MODEL_B == 3
using MB = m_packed_b<LAY_B, SZB>;
#else
using MB = m_bital_b<LAY_B, SZB>;
#endif
constexpr bool HOMOG = MA::homogeneous;
static_assert(MA::homogeneous == MB::homogeneous, "models of one pair share the channel type");

// ------------------------------------------------------------------------------------------------ checks over all colours
// dst slot MAPA[J] holds what src slot MAPB[J] held
template <class A> static bool paired(A const& a, unsigned long const* srcraw) { bool ok = true; for (int j = 0; j < N; ++j) ok = ok && a.raw(MAPA[j]) == srcraw[MAPB[j]]; return ok; }
template <class V> static bool paired_value(V const& d, unsigned long const* srcraw) { bool ok = true; for (int j = 0; j < N; ++j) ok = ok && MA::raw_of(d, MAPA[j]) == srcraw[MAPB[j]]; return ok; }
template <class B> static void snapshot(B const& b, unsigned long* out) { for (int m = 0; m < N; ++m) out[m] = b.raw(m); }
template <class B> static bool same_raw(B const& b, unsigned long const* rec) { bool ok = true; for (int m = 0; m < N; ++m) ok = ok && b.raw(m) == rec[m]; return ok; }
// get_color(a, C) == get_color(b, C) for every colour C of the colour space
template <class PA, class PB> struct colors_equal { PA const& a; PB const& b; bool ok;
    template <int J> void at() { ok = ok && val(gil::get_color(a, color_c<J>())) == val(gil::get_color(b, color_c<J>())); } };
template <class PA, class PB> static bool get_color_equal(PA const& a, PB const& b) { colors_equal<PA, PB> f{a, b, true}; each<0>::run(f); return f.ok; }

// recording functor: logs the memory slots of the channels it is called with (the log lives outside: functors are copied around)
struct visit_log { int n = 0; int s[3][8]; };
template <class M1, class M2 = M1, class M3 = M1> struct recorder {
    M1 const* m1; M2 const* m2; M3 const* m3; visit_log* lg;
    template <class X> void operator()(X const& x) const { if (lg->n < 8) { lg->s[0][lg->n] = m1->slot(x); } lg->n++; }
    template <class X, class Y> void operator()(X const& x, Y const& y) const { if (lg->n < 8) { lg->s[0][lg->n] = m1->slot(x); lg->s[1][lg->n] = m2->slot(y); } lg->n++; }
    template <class X, class Y, class Z> void operator()(X const& x, Y const& y, Z const& z) const {
        if (lg->n < 8) { lg->s[0][lg->n] = m1->slot(x); lg->s[1][lg->n] = m2->slot(y); lg->s[2][lg->n] = m3->slot(z); } lg->n++; }
};
// exactly N calls, and every colour J was visited exactly once with the slots (map0[J], map1[J], map2[J]) of the arity first arguments
static bool once_per_colour(visit_log const& lg, int arity, const int* map0, const int* map1, const int* map2) {
    if (lg.n != N) return false;
    bool ok = true;
    for (int j = 0; j < N; ++j) { int cnt = 0;
        for (int i = 0; i < N; ++i) { bool hit = lg.s[0][i] == map0[j]; if (arity >= 2) hit = hit && lg.s[1][i] == map1[j]; if (arity >= 3) hit = hit && lg.s[2][i] == map2[j]; if (hit) ++cnt; }
        ok = ok && cnt == 1; }
    return ok;
}
// transform functors: record like the recorder and return a function of the channel values
template <class M1, class M2> struct xor_op { M1 const* m1; M2 const* m2; visit_log* lg;
    template <class X> unsigned char operator()(X const& x) const { if (lg->n < 8) lg->s[0][lg->n] = m1->slot(x); lg->n++; return (unsigned char)(val(x) ^ 1u); }
    template <class X, class Y> unsigned char operator()(X const& x, Y const& y) const { if (lg->n < 8) { lg->s[0][lg->n] = m1->slot(x); lg->s[1][lg->n] = m2->slot(y); } lg->n++; return (unsigned char)(val(x) ^ val(y)); } };
struct counter_gen { int* calls; unsigned char operator()() const { ++*calls; return (unsigned char)(HOMOG ? *calls : (*calls & 1)); } };

#if CONSTRUCT_REF
// a planar reference constructed from an interleaved pixel lvalue designates that pixel's channels, colour by colour
template <class PR, class PB> struct same_channels { PR const& r; PB& b; MB const& mb; bool ok;
    template <int J> void at() { ok = ok && &gil::get_color(r, color_c<J>()) == &gil::get_color(b, color_c<J>()) && mb.slot(gil::get_color(r, color_c<J>())) == MAPB[J]; } };
#endif
#if SINGLE
// at_c<K> / operator[] = memory order; semantic_at_c<J> / get_color = colour-space order; related by the layout's channel mapping
template <class P> struct index_check { P& p; MA const& a; bool sem, col, mem, idx, lib, val_ok;
    template <int J> void at() {
        sem = sem && a.slot(gil::semantic_at_c<J>(p)) == MAPA[J];
        col = col && a.slot(gil::get_color(p, color_c<J>())) == MAPA[J];
        mem = mem && a.slot(gil::at_c<J>(p)) == J;
        val_ok = val_ok && val(gil::at_c<J>(p)) == a.raw(J) && val(gil::semantic_at_c<J>(p)) == a.raw(MAPA[J]);
        lib = lib && mp11::mp_at_c<typename gil::channel_mapping_type<typename std::remove_cv<P>::type>::type, J>::value == MAPA[J];
        idx = idx && subscript(std::integral_constant<bool, HOMOG>(), J);
    }
    bool subscript(std::true_type, int k) { return a.slot(p[k]) == k; }
    bool subscript(std::false_type, int) { return true; }
};
template <class P> static void index_all(P& p, MA const& a, bool& sem, bool& col, bool& mem, bool& idx, bool& lib, bool& v) {
    index_check<P> f{p, a, true, true, true, true, true, true}; each<0>::run(f); sem = f.sem; col = f.col; mem = f.mem; idx = f.idx; lib = f.lib; v = f.val_ok; }
#endif

extern "C" {
// ------------------------------------------------------------------------------------------------ pair entry points
// dst = src, then static_copy(src, dst2)
void h_assign(void) {
    MA a; MB b;
    unsigned long sb[N]; snapshot(b, sb);
    a.ref() = b.cref();
    vp_assert(paired(a, sb), "px.assign_pairs_by_colour");
    vp_assert(get_color_equal(a.cref(), b.cref()), "px.assign_get_color_equal");
    vp_assert(a.cref() == b.cref(), "px.assign_then_equal");
    vp_assert(!(a.cref() != b.cref()), "px.assign_then_not_unequal");
    vp_assert(b.cref() == a.cref(), "px.assign_then_equal_symmetric");
    vp_assert(same_raw(b, sb), "px.assign_source_unchanged");
    vp_assert(a.frame_ok() && b.frame_ok(), "px.assign_frame");
    MA a2;
    auto&& d = a2.ref();
    gil::static_copy(b.cref(), d);
    vp_assert(paired(a2, sb), "static.copy_pairs_by_colour");
    vp_assert(gil::static_equal(a2.cref(), b.cref()), "static.copy_then_static_equal");
    vp_assert(same_raw(b, sb) && a2.frame_ok() && b.frame_ok(), "static.copy_frame");
}
// converting construction of A's value type from B
void h_construct(void) {
    MB b;
    unsigned long sb[N]; snapshot(b, sb);
    typename MA::value_t d(b.cref());
    vp_assert(paired_value(d, sb), "px.construct_pairs_by_colour");
    vp_assert(get_color_equal(d, b.cref()), "px.construct_get_color_equal");
    vp_assert(d == b.cref(), "px.construct_then_equal");
    vp_assert(same_raw(b, sb) && b.frame_ok(), "px.construct_source_unchanged");
}
#if CONSTRUCT_REF
void h_construct_ref(void) {
    MB b;
    typename MB::px_t& p = b.ref();
    typename MA::ref_t r(p);
    same_channels<typename MA::ref_t, typename MB::px_t> f{r, p, b, true}; each<0>::run(f);
    vp_assert(f.ok, "px.planar_ref_from_pixel_designates_by_colour");
    vp_assert(r == p, "px.planar_ref_from_pixel_equal");
}
#endif
// operator== / != / static_equal are the conjunction over colours
void h_equal(void) {
    MA a; MB b;
    bool model = true; for (int j = 0; j < N; ++j) model = model && a.raw(MAPA[j]) == b.raw(MAPB[j]);
    vp_assert((a.cref() == b.cref()) == model, "px.equal_is_per_colour");
    vp_assert((b.cref() == a.cref()) == model, "px.equal_is_per_colour_symmetric");
    vp_assert((a.cref() != b.cref()) == !model, "px.not_equal_is_negation");
    vp_assert(gil::static_equal(a.cref(), b.cref()) == model, "static.equal_is_per_colour");
}
// static_for_each with two and three colour bases: each colour once, arguments paired by colour
void h_for_each(void) {
    MA a; MB b; MA c;
    visit_log lg2; recorder<MA, MB, MA> r2{&a, &b, &c, &lg2};
    auto&& pa = a.ref(); auto&& pb = b.ref(); auto&& pc = c.ref();
    gil::static_for_each(pa, pb, r2);
    vp_assert(once_per_colour(lg2, 2, MAPA, MAPB, MAPA), "static.for_each2_once_per_colour");
    visit_log lg2c; recorder<MA, MB, MA> r2c{&a, &b, &c, &lg2c};
    gil::static_for_each(a.cref(), b.cref(), r2c);
    vp_assert(once_per_colour(lg2c, 2, MAPA, MAPB, MAPA), "static.for_each2_const_once_per_colour");
    visit_log lg3; recorder<MA, MB, MA> r3{&a, &b, &c, &lg3};
    gil::static_for_each(pa, b.cref(), pc, r3);
    vp_assert(once_per_colour(lg3, 3, MAPA, MAPB, MAPA), "static.for_each3_once_per_colour");
}
// static_transform(src1, src2, dst, op): dst colour = op(src1 colour, src2 colour)
void h_transform(void) {
    MA a; MB b; MA c;
    unsigned long sa[N], sb[N]; snapshot(a, sa); snapshot(b, sb);
    visit_log lg; xor_op<MA, MB> op{&a, &b, &lg};
    auto&& d = c.ref();
    gil::static_transform(a.cref(), b.cref(), d, op);
    vp_assert(once_per_colour(lg, 2, MAPA, MAPB, MAPA), "static.transform2_once_per_colour");
    bool ok = true; for (int j = 0; j < N; ++j) ok = ok && c.raw(MAPA[j]) == (sa[MAPA[j]] ^ sb[MAPB[j]]);
    vp_assert(ok, "static.transform2_result_by_colour");
    vp_assert(same_raw(a, sa) && same_raw(b, sb) && c.frame_ok(), "static.transform2_frame");
    // the other const / mutable overloads of the two-source transform pair the sources by colour just the same
    { auto&& pa = a.ref(); auto&& pb = b.ref();
      visit_log l1; xor_op<MA, MB> o1{&a, &b, &l1}; gil::static_transform(pa, b.cref(), d, o1);
      vp_assert(once_per_colour(l1, 2, MAPA, MAPB, MAPA), "static.transform2_mutable_const_once_per_colour");
      visit_log l2; xor_op<MA, MB> o2{&a, &b, &l2}; gil::static_transform(a.cref(), pb, d, o2);
      vp_assert(once_per_colour(l2, 2, MAPA, MAPB, MAPA), "static.transform2_const_mutable_once_per_colour");
      visit_log l3; xor_op<MA, MB> o3{&a, &b, &l3}; gil::static_transform(pa, pb, d, o3);
      vp_assert(once_per_colour(l3, 2, MAPA, MAPB, MAPA), "static.transform2_mutable_mutable_once_per_colour");
      bool ok2 = true; for (int j = 0; j < N; ++j) ok2 = ok2 && c.raw(MAPA[j]) == (sa[MAPA[j]] ^ sb[MAPB[j]]);
      vp_assert(ok2 && same_raw(a, sa) && same_raw(b, sb) && c.frame_ok(), "static.transform2_overloads_result_and_frame"); }
    // one source: B -> A
    visit_log lg1; xor_op<MB, MB> op1{&b, &b, &lg1};
    gil::static_transform(b.cref(), d, op1);
    vp_assert(once_per_colour(lg1, 1, MAPB, MAPB, MAPB), "static.transform1_once_per_colour");
    ok = true; for (int j = 0; j < N; ++j) ok = ok && c.raw(MAPA[j]) == (sb[MAPB[j]] ^ 1u);
    vp_assert(ok, "static.transform1_result_by_colour");
}

// ------------------------------------------------------------------------------------------------ single colour base (A)
#if SINGLE
void h_index(void) {
    MA a; bool sem, col, mem, idx, lib, v;
    auto&& p = a.ref();
    index_all(p, a, sem, col, mem, idx, lib, v);
    vp_assert(mem, "idx.at_c_is_memory_order");
    vp_assert(idx, "idx.subscript_is_memory_order");
    vp_assert(sem, "idx.semantic_at_c_follows_channel_mapping");
    vp_assert(col, "idx.get_color_follows_channel_mapping");
    vp_assert(lib, "idx.library_channel_mapping_is_the_documented_one");
    vp_assert(v, "idx.values_read_from_designated_slot");
    auto const& cp = a.cref();
    index_all(cp, a, sem, col, mem, idx, lib, v);
    vp_assert(mem && idx && sem && col && v, "idx.const_access_same_slots");
}
// static_for_each / static_transform with one colour base, static_fill, static_generate
void h_single(void) {
    MA a;
    auto&& p = a.ref();
    visit_log lg; recorder<MA> r{&a, &a, &a, &lg};
    gil::static_for_each(p, r);
    vp_assert(once_per_colour(lg, 1, MAPA, MAPA, MAPA), "static.for_each1_once_per_colour");
    visit_log lgc; recorder<MA> rc{&a, &a, &a, &lgc};
    gil::static_for_each(a.cref(), rc);
    vp_assert(once_per_colour(lgc, 1, MAPA, MAPA, MAPA), "static.for_each1_const_once_per_colour");
    int calls = 0; counter_gen g{&calls};
    gil::static_generate(p, g);
    vp_assert(calls == N, "static.generate_calls_once_per_channel");
    bool perm = true;
    if (HOMOG) for (int v = 1; v <= N; ++v) { int cnt = 0; for (int m = 0; m < N; ++m) if (a.raw(m) == (unsigned long)v) ++cnt; perm = perm && cnt == 1; }
    else for (int m = 0; m < N; ++m) perm = perm && a.raw(m) <= 1;
    vp_assert(perm, "static.generate_each_channel_written_once");
    vp_assert(a.frame_ok(), "static.generate_frame");
    unsigned char fv = vp_nondet_u8(); if (!HOMOG) fv &= 1;
    gil::static_fill(p, fv);
    bool all = true; for (int m = 0; m < N; ++m) all = all && a.raw(m) == fv;
    vp_assert(all, "static.fill_every_channel");
    vp_assert(a.frame_ok(), "static.fill_frame");
}
#if MODEL_A <= 2
// static_min / static_max: a channel of the colour base holding the minimum / maximum
void h_minmax(void) {
    MA a;
    unsigned long lo = a.raw(0), hi = a.raw(0); for (int m = 1; m < N; ++m) { if (a.raw(m) < lo) lo = a.raw(m); if (a.raw(m) > hi) hi = a.raw(m); }
    auto&& p = a.ref();
    std::uint8_t& mn = gil::static_min(p); std::uint8_t& mx = gil::static_max(p);
    vp_assert(a.slot(mn) >= 0 && mn == lo, "static.min_is_a_channel_with_the_minimum");
    vp_assert(a.slot(mx) >= 0 && mx == hi, "static.max_is_a_channel_with_the_maximum");
    vp_assert(gil::static_min(a.cref()) == lo && gil::static_max(a.cref()) == hi, "static.minmax_const");
}
#endif
#endif
}
