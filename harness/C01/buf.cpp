// C01, second family: a view built over a caller-supplied buffer of exactly height x row-bytes; no byte before or after
// that buffer is read or written by any accessor, through any transformation.
// Shape: SRC, XF1.  Symbolic: w,h in 0..4, row padding, transformation parameters, coordinates, pixel values.
#include "views.hpp"
extern "C" void h_buf(void) {
    SRC s; auto v = s.make();
    XF1 f; f.init(s.w, s.h);
    auto t = f.apply(v);
    int w = (int)t.width(), h = (int)t.height();
    int x, y; vp_coord(w, h, x, y);
    typename SRC::view_t::value_type p; vp_fill(&p, sizeof p);
    vp_assume(p == p);   // float channels: not a NaN (a NaN never compares equal to what is read back)
    typename SRC::view_t::value_type r = t(x, y);
    int sel = vp_param(0);   // which accessor (concrete per query); 0 = all of them
    if (sel == 0 || sel == 1) t(x, y) = p;
    if (sel == 0 || sel == 2) t.row_begin(y)[x] = p;
    if (sel == 0 || sel == 3) t.col_begin(x)[y] = p;
    if (sel == 0 || sel == 4) t.begin()[y * w + x] = p;
    if (sel == 0 || sel == 5) *t.xy_at(x, y) = p;
    if (sel == 0 || sel == 6) *t.at(x, y) = p;
    if (sel == 0 || sel == 7) t.rbegin()[w * h - 1 - (y * w + x)] = p;
    vp_assert(t(x, y) == p, "c01.buf_write_read_back");
}
