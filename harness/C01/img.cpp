// C01: pixel access through images and views never leaves the image's storage.
// Shape parameters: IMG (image type over the checking allocator), PATH (how the image came to be), XF1 (view transformation).
// Concrete per query (vp_param): previous and new dimensions and alignments.  Symbolic: allocator base address residue,
// coordinates, pixel values, transformation parameters.
// Oracle: the allocator block is a heap object of exactly the size the image requested, so every access outside it fails
// the model checker's object-bounds obligation; plus ledger checks that the touched pixel lies in the image's live block.
#ifndef VP_MAXDIM
#define VP_MAXDIM 3
#endif
#include "views.hpp"
#include <boost/gil/extension/toolbox/metafunctions/is_bit_aligned.hpp>
using alloc_t = chk_alloc<unsigned char>;
using rgb8_img = gil::image<gil::rgb8_pixel_t, false, alloc_t>;
using rgb8p_img = gil::image<gil::rgb8_pixel_t, true, alloc_t>;
using gray8_img = gil::image<gil::gray8_pixel_t, false, alloc_t>;
using rgba8_img = gil::image<gil::rgba8_pixel_t, false, alloc_t>;
using rgba8p_img = gil::image<gil::rgba8_pixel_t, true, alloc_t>;
using cmyk8_img = gil::image<gil::cmyk8_pixel_t, false, alloc_t>;
using rgb16_img = gil::image<gil::rgb16_pixel_t, false, alloc_t>;
using rgb16p_img = gil::image<gil::rgb16_pixel_t, true, alloc_t>;
using rgb32f_img = gil::image<gil::rgb32f_pixel_t, false, alloc_t>;
using gray16s_img = gil::image<gil::gray16s_pixel_t, false, alloc_t>;
using rgb565_img = gil::packed_image3_type<std::uint16_t, 5, 6, 5, gil::rgb_layout_t, alloc_t>::type;
using bgr556_img = gil::packed_image3_type<std::uint16_t, 5, 5, 6, gil::bgr_layout_t, alloc_t>::type;
using bgray1_img = gil::bit_aligned_image1_type<1, gil::gray_layout_t, alloc_t>::type;
using bgray2_img = gil::bit_aligned_image1_type<2, gil::gray_layout_t, alloc_t>::type;
using bgray4_img = gil::bit_aligned_image1_type<4, gil::gray_layout_t, alloc_t>::type;
using brgb222_img = gil::bit_aligned_image3_type<2, 2, 2, gil::rgb_layout_t, alloc_t>::type;
using bbgr232_img = gil::bit_aligned_image3_type<2, 3, 2, gil::bgr_layout_t, alloc_t>::type;
using brgb565_img = gil::bit_aligned_image3_type<5, 6, 5, gil::rgb_layout_t, alloc_t>::type;
using bgray7_img = gil::bit_aligned_image1_type<7, gil::gray_layout_t, alloc_t>::type;

template <class V> static void touch(V const& t) {
    int w = (int)t.width(), h = (int)t.height();
    if (w == 0 || h == 0) return;   // an empty view has no pixel to access: the query then checks the creation path only (allocator ledger, bounds of fill)
    int x, y; vp_coord(w, h, x, y);
    typename V::value_type p; vp_fill(&p, sizeof p);
    vp_assume(p == p);              // float channels: the written value is not a NaN (a NaN never compares equal to what is read back)
    typename V::value_type r = t(x, y);
    t(x, y) = p;
#ifndef TOUCH_LEVEL
#define TOUCH_LEVEL 9
#endif
#if TOUCH_LEVEL >= 1
    t.row_begin(y)[x] = r;
#endif
#if TOUCH_LEVEL >= 2
    r = t.col_begin(x)[y];
#endif
#if TOUCH_LEVEL >= 3
    t.begin()[y * w + x] = p;
#endif
#if TOUCH_LEVEL >= 4
    *t.xy_at(x, y) = r;
#endif
#if TOUCH_LEVEL >= 5
    r = *t.at(x, y);
#endif
#if TOUCH_LEVEL >= 6
    t.rbegin()[w * h - 1 - (y * w + x)] = p;
#endif
    vp_assert(t(x, y) == p, "c01.write_read_back");
}
template <class Img> static void whole(Img& a) {
    // whole-image algorithms and a transformed view
    typename Img::value_type p; vp_fill(&p, sizeof p);
    XF1 f; f.init((int)a.width(), (int)a.height());
    auto t = f.apply(gil::view(a));
    touch(t);
#if ALGOS >= 1
    gil::fill_pixels(gil::view(a), p);
#endif
#if ALGOS >= 2
    Img b(a);
    gil::copy_pixels(gil::const_view(b), gil::view(a));
    vp_assert(gil::equal_pixels(gil::const_view(a), gil::const_view(b)), "c01.copy_equal");
#endif
}
extern "C" void h_img(void) {
    using img_t = IMG;
    {
        // dimensions and alignments are concrete shape parameters of the query (image constructors loop over every pixel)
        int w0 = vp_param(0), h0 = vp_param(1), al0 = vp_param(2);
        int w = vp_param(3), h = vp_param(4), al = vp_param(5);
        typename img_t::value_type fillp; vp_fill(&fillp, sizeof fillp);
#if PATH == 0
        img_t a(w, h, (std::size_t)al, alloc_t(1));
#elif PATH == 1
        img_t a(w, h, fillp, (std::size_t)al, alloc_t(1));
#elif PATH == 2
        img_t b(w, h, (std::size_t)al, alloc_t(1));
        img_t a(b);
#elif PATH == 3
        img_t a(w0, h0, (std::size_t)al0, alloc_t(1));
        img_t b(w, h, (std::size_t)al, alloc_t(1));
        a = b;
#elif PATH == 4
        img_t a(w0, h0, (std::size_t)al0, alloc_t(1));
        a.recreate(w, h, (std::size_t)al);
#elif PATH == 5
        img_t a(w0, h0, (std::size_t)al0, alloc_t(1));
        a.recreate(w, h, fillp, (std::size_t)al);
#elif PATH == 6
        img_t b(w, h, fillp, (std::size_t)al, alloc_t(1));
        img_t a(std::move(b));
#endif
        if (a.width() > 0 && a.height() > 0) {
            vp_assert(vp_live_blocks() >= 1, "c01.image_owns_block");
        }
        whole(a);
    }
    vp_check_no_leak();
}
