// C18: toolbox colour spaces hsv, hsl, ycbcr (601/709), cmyka, gray_alpha, gray_to_rgba, rgb_to_luminance.
// xyz and lab call powf (libm, not modelled) and are outside the technique; rgb -> cmyka / rgba -> cmyka converters do not exist in the toolbox.
// Shape parameters (run time, meaning per entry point):
//   h_hsX_hue_periodic / h_hsX_back_defined: vp_param(3) mask (bit 0: saturation, bit 1: value/lightness concrete), vp_param(1), vp_param(2) their
//     float bit patterns; h_hsX_back_defined: vp_param(0) hue sector (0 = any hue in [0,1]);
//   h_ycbcrNNN_round: vp_param(0) channel under test (1 red, 2 green, 3 blue, 0 all), vp_param(1) tolerance in levels, vp_param(2) mask of the
//     channels whose upper nibble is concrete, vp_param(3) the packed nibbles.
// Compile time: GA_P / RGBA_P the gray_alpha source and rgba destination pixel types of h_ga_to_rgba / h_gray_to_rgba.
#include <boost/gil.hpp>
#include <boost/gil/extension/toolbox/color_spaces/hsv.hpp>
#include <boost/gil/extension/toolbox/color_spaces/hsl.hpp>
#include <boost/gil/extension/toolbox/color_spaces/ycbcr.hpp>
#include <boost/gil/extension/toolbox/color_spaces/cmyka.hpp>
#include <boost/gil/extension/toolbox/color_spaces/gray_alpha.hpp>
#include <boost/gil/extension/toolbox/color_converters/gray_to_rgba.hpp>
#include <boost/gil/extension/toolbox/color_converters/rgb_to_luminance.hpp>
#include "vp.hpp"
namespace gil = boost::gil;
#ifndef GA_P
#define GA_P gil::gray_alpha8_pixel_t
#endif
#ifndef RGBA_P
#define RGBA_P gil::rgba8_pixel_t
#endif

static gil::rgb8_pixel_t sym_rgb8() {
    std::uint8_t r = vp_nondet_u8();
    std::uint8_t g = vp_nondet_u8();
    std::uint8_t b = vp_nondet_u8();
    return gil::rgb8_pixel_t(r, g, b);
}
// stratified rgb8: vp_param(2) is a 3-bit mask (bit k set => channel k has its upper nibble concrete), vp_param(3) packs the three nibbles
// (bits 0-3 red, 4-7 green, 8-11 blue); the lower nibbles stay symbolic
static gil::rgb8_pixel_t sym_rgb8_strat() {
    std::uint8_t c[3];
    for (int k = 0; k < 3; ++k) {
        std::uint8_t v = vp_nondet_u8();
        if ((vp_param(2) >> k) & 1) v = (std::uint8_t)((((unsigned)vp_param(3) >> (4 * k)) & 15u) << 4 | (v & 15u));
        c[k] = v;
    }
    return gil::rgb8_pixel_t(c[0], c[1], c[2]);
}
static float sym_unit() { float f = vp_nondet_float(); vp_assume(f >= 0.0f && f <= 1.0f); return f; }
// stratification: bit k-1 of vp_param(3) set => the value is the float whose bit pattern is vp_param(k), else symbolic in [0,1]
static float unit_or_param(int k) {
    if ((vp_param(3) >> (k - 1)) & 1) { unsigned bits = (unsigned)vp_param(k); float f; __builtin_memcpy(&f, &bits, 4); return f; }
    return sym_unit();
}
template <class D, class S> static D conv_to(S const& s) { D d; gil::color_convert(s, d); return d; }
static bool rgb_eq(gil::rgb8_pixel_t const& a, gil::rgb8_pixel_t const& b) {
    return gil::at_c<0>(a) == gil::at_c<0>(b) && gil::at_c<1>(a) == gil::at_c<1>(b) && gil::at_c<2>(a) == gil::at_c<2>(b);
}
static bool in_unit(gil::float32_t x) { float f = x; return f >= 0.0f && f <= 1.0f; }
static int iabs(int v) { return v < 0 ? -v : v; }
// the same value through a volatile cell: the compiler must evaluate a conversion of the copy separately instead of merging it with the
// conversion of the original (a merged evaluation would hide an unset local / an out-of-range float -> integer conversion, which the
// translator models as an arbitrary value per evaluation)
template <class T> static T relay(T v) { volatile T cell = v; return cell; }

extern "C" {
// ---------------------------------------------------------------------------------------------- hsv / hsl
// NAME: hsv | hsl; PIX: the float pixel type (hue, saturation, value|lightness)
#define HS_ENTRIES(NAME, PIX)                                                                                                   \
/* every rgb8 pixel: hue, saturation, value/lightness in [0,1] */                                                                \
void h_##NAME##_range(void) {                                                                                                    \
    gil::rgb8_pixel_t s = sym_rgb8();                                                                                            \
    PIX d = conv_to<PIX>(s);                                                                                                     \
    vp_assert(in_unit(gil::at_c<0>(d)), #NAME ".hue_in_unit_range");                                                             \
    vp_assert(in_unit(gil::at_c<1>(d)), #NAME ".saturation_in_unit_range");                                                      \
    vp_assert(in_unit(gil::at_c<2>(d)), #NAME ".third_channel_in_unit_range");                                                   \
}                                                                                                                                \
/* (h,s,x) in [0,1]^3 -> rgb8 evaluated twice (the second time through volatile copies of the inputs): equal results, i.e. no      \
   out-of-range float -> integer conversion and no read of an unset local that survives optimisation (both are arbitrary values  \
   per evaluation in the model) */                                                                                               \
void h_##NAME##_back_defined(void) {                                                                                             \
    float h = sym_unit(); float s = unit_or_param(1); float x = unit_or_param(2);                                                \
    int sector = vp_param(0);   /* 0: any hue; 1..6: hue in [(k-1)/6, k/6); 7: hue == 1 */                                       \
    if (sector >= 1 && sector <= 6) vp_assume(h * 6.0f >= (float)(sector - 1) && h * 6.0f < (float)sector);                      \
    if (sector == 7) vp_assume(h == 1.0f);                                                                                       \
    gil::rgb8_pixel_t a = conv_to<gil::rgb8_pixel_t>(PIX(h, s, x));                                                              \
    gil::rgb8_pixel_t b = conv_to<gil::rgb8_pixel_t>(PIX(relay(h), relay(s), relay(x)));                                         \
    vp_assert(rgb_eq(a, b), #NAME ".to_rgb_result_is_defined");                                                                  \
}                                                                                                                                \
/* hue is periodic: hue 1 is the colour of hue 0 */                                                                              \
void h_##NAME##_hue_periodic(void) {                                                                                             \
    float s = unit_or_param(1); float x = unit_or_param(2);                                                                      \
    gil::rgb8_pixel_t a = conv_to<gil::rgb8_pixel_t>(PIX(1.0f, s, x));                                                           \
    gil::rgb8_pixel_t b = conv_to<gil::rgb8_pixel_t>(PIX(0.0f, s, x));                                                           \
    vp_assert(rgb_eq(a, b), #NAME ".hue_one_equals_hue_zero");                                                                   \
}                                                                                                                                \
/* greys (saturation 0) ignore hue, and are the grey of the third channel */                                                     \
void h_##NAME##_gray_ignores_hue(void) {                                                                                         \
    float h1 = sym_unit(); float h2 = sym_unit(); float x = sym_unit();                                                          \
    gil::rgb8_pixel_t a = conv_to<gil::rgb8_pixel_t>(PIX(h1, 0.0f, x));                                                          \
    gil::rgb8_pixel_t b = conv_to<gil::rgb8_pixel_t>(PIX(h2, 0.0f, x));                                                          \
    vp_assert(rgb_eq(a, b), #NAME ".saturation_zero_ignores_hue");                                                               \
    vp_assert(gil::at_c<0>(a) == gil::at_c<1>(a) && gil::at_c<1>(a) == gil::at_c<2>(a), #NAME ".saturation_zero_is_grey");       \
}
HS_ENTRIES(hsv, gil::hsv32f_pixel_t)
HS_ENTRIES(hsl, gil::hsl32f_pixel_t)

// ---------------------------------------------------------------------------------------------- ycbcr (8-bit only)
// NAME: ycbcr601 | ycbcr709
#define YC_ENTRIES(NAME, PIX, LO, YHI, CHI)                                                                                                    \
/* rgb8 -> ycbcr: channels in the nominal range LO..YHI / LO..CHI (BT.601 as implemented here: 16..235 luma, 16..240 chroma; the     \
   full-range variant: 0..255).  An out-of-range double -> uint8 conversion yields an arbitrary value in the model, which this          \
   assertion (601) and the round-trip assertion (both) would expose. */                                                          \
void h_##NAME##_fwd(void) {                                                                                                      \
    gil::rgb8_pixel_t s = sym_rgb8();                                                                                            \
    PIX d = conv_to<PIX>(s);                                                                                                     \
    vp_assert(gil::at_c<0>(d) >= LO && gil::at_c<0>(d) <= YHI && gil::at_c<1>(d) >= LO && gil::at_c<1>(d) <= CHI && gil::at_c<2>(d) >= LO && gil::at_c<2>(d) <= CHI, \
              #NAME ".channels_in_nominal_range");                                                                               \
}                                                                                                                                \
/* ycbcr (any bytes) -> rgb8: no undefined step, result defined */                                                               \
void h_##NAME##_back_defined(void) {                                                                                             \
    std::uint8_t y = vp_nondet_u8();                                                                                             \
    std::uint8_t cb = vp_nondet_u8();                                                                                            \
    std::uint8_t cr = vp_nondet_u8();                                                                                            \
    gil::rgb8_pixel_t a = conv_to<gil::rgb8_pixel_t>(PIX(y, cb, cr));                                                            \
    gil::rgb8_pixel_t b = conv_to<gil::rgb8_pixel_t>(PIX(relay(y), relay(cb), relay(cr)));                                       \
    vp_assert(rgb_eq(a, b), #NAME ".to_rgb_result_is_defined");                                                                  \
}                                                                                                                                \
/* rgb8 -> ycbcr -> rgb8 within vp_param(1) levels; vp_param(0) = 1,2,3: red, green, blue only */                                \
void h_##NAME##_round(void) {                                                                                                    \
    gil::rgb8_pixel_t s = sym_rgb8_strat();                                                                                          \
    PIX d = conv_to<PIX>(s);                                                                                                     \
    gil::rgb8_pixel_t z = conv_to<gil::rgb8_pixel_t>(d);                                                                         \
    int which = vp_param(0), tol = vp_param(1);                                                                                  \
    if (which == 0 || which == 1) vp_assert(iabs((int)gil::at_c<0>(s) - (int)gil::at_c<0>(z)) <= tol, #NAME ".round_trip_red");  \
    if (which == 0 || which == 2) vp_assert(iabs((int)gil::at_c<1>(s) - (int)gil::at_c<1>(z)) <= tol, #NAME ".round_trip_green"); \
    if (which == 0 || which == 3) vp_assert(iabs((int)gil::at_c<2>(s) - (int)gil::at_c<2>(z)) <= tol, #NAME ".round_trip_blue"); \
}
YC_ENTRIES(ycbcr601, gil::ycbcr_601_8_pixel_t, 16, 235, 240)
YC_ENTRIES(ycbcr709, gil::ycbcr_709_8_pixel_t, 0, 255, 255)

// ---------------------------------------------------------------------------------------------- cmyka
// cmyka -> rgba: the colour channels are the core cmyk -> rgb conversion of (c,m,y,k)
void h_cmyka_to_rgba(void) {
    std::uint8_t c = vp_nondet_u8();
    std::uint8_t m = vp_nondet_u8();
    std::uint8_t y = vp_nondet_u8();
    std::uint8_t k = vp_nondet_u8();
    std::uint8_t a = vp_nondet_u8();
    gil::rgba8_pixel_t d = conv_to<gil::rgba8_pixel_t>(gil::cmyka8_pixel_t(c, m, y, k, a));
    gil::rgb8_pixel_t e = conv_to<gil::rgb8_pixel_t>(gil::cmyk8_pixel_t(c, m, y, k));
    vp_assert(gil::get_color(d, gil::red_t()) == gil::at_c<0>(e) && gil::get_color(d, gil::green_t()) == gil::at_c<1>(e) && gil::get_color(d, gil::blue_t()) == gil::at_c<2>(e),
              "cmyka.to_rgba_colour_is_cmyk_conversion");
}
// cmyka -> cmyka of another depth: per-channel channel_convert
void h_cmyka_same(void) {
    std::uint8_t c = vp_nondet_u8();
    std::uint8_t m = vp_nondet_u8();
    std::uint8_t y = vp_nondet_u8();
    std::uint8_t k = vp_nondet_u8();
    std::uint8_t a = vp_nondet_u8();
    gil::cmyka16_pixel_t d = conv_to<gil::cmyka16_pixel_t>(gil::cmyka8_pixel_t(c, m, y, k, a));
    vp_assert(gil::at_c<0>(d) == gil::channel_convert<std::uint16_t>(c) && gil::at_c<1>(d) == gil::channel_convert<std::uint16_t>(m) && gil::at_c<2>(d) == gil::channel_convert<std::uint16_t>(y)
              && gil::at_c<3>(d) == gil::channel_convert<std::uint16_t>(k) && gil::at_c<4>(d) == gil::channel_convert<std::uint16_t>(a), "cmyka.same_space_is_channel_convert");
    gil::cmyka8_pixel_t z = conv_to<gil::cmyka8_pixel_t>(d);
    vp_assert(gil::at_c<0>(z) == c && gil::at_c<1>(z) == m && gil::at_c<2>(z) == y && gil::at_c<3>(z) == k && gil::at_c<4>(z) == a, "cmyka.depth_round_trip");
}

// ---------------------------------------------------------------------------------------------- gray_alpha -> rgba, gray -> rgba
using GA = GA_P; using RGBA = RGBA_P;
using GAC = gil::channel_type<GA>::type; using RC = gil::channel_type<RGBA>::type;
static GAC sym_gac() { return sizeof(GAC) == 1 ? (GAC)vp_nondet_u8() : (GAC)vp_nondet_u16(); }
void h_ga_to_rgba(void) {
    GAC g = sym_gac(); GAC a = sym_gac();
    GA s; gil::get_color(s, gil::gray_color_t()) = g; gil::get_color(s, gil::alpha_t()) = a;
    RGBA d = conv_to<RGBA>(s);
    RC gv = gil::channel_convert<RC>(g);
    vp_assert(gil::get_color(d, gil::red_t()) == gv && gil::get_color(d, gil::green_t()) == gv && gil::get_color(d, gil::blue_t()) == gv, "gray_alpha.to_rgba_colour_is_gray");
    vp_assert(gil::get_color(d, gil::alpha_t()) == gil::channel_convert<RC>(a), "gray_alpha.to_rgba_alpha_carried");
}
// toolbox gray -> rgba (gray_to_rgba.hpp): (v,v,v,max)
void h_gray_to_rgba(void) {
    GAC g = sym_gac();
    gil::pixel<GAC, gil::gray_layout_t> s(g);
    RGBA d = conv_to<RGBA>(s);
    RC gv = gil::channel_convert<RC>(g);
    vp_assert(gil::get_color(d, gil::red_t()) == gv && gil::get_color(d, gil::green_t()) == gv && gil::get_color(d, gil::blue_t()) == gv, "gray_to_rgba.colour_is_gray");
    vp_assert(gil::get_color(d, gil::alpha_t()) == gil::channel_traits<RC>::max_value(), "gray_to_rgba.alpha_is_max");
}

// ---------------------------------------------------------------------------------------------- rgb_to_luminance (double channels)
// the toolbox specialisation for double channels uses the core weights 0.30 / 0.59 / 0.11; inputs are the integer-valued doubles 0..255
void h_luminance(void) {
    double r = (double)vp_nondet_u8();
    double g = (double)vp_nondet_u8();
    double b = (double)vp_nondet_u8();
    double y = gil::detail::rgb_to_luminance<double>(r, g, b);
    vp_assert(y == r * 0.30 + g * 0.59 + b * 0.11, "luminance.double_uses_core_weights");
    gil::pixel<double, gil::rgb_layout_t> s(r, g, b);
    gil::pixel<double, gil::gray_layout_t> d;
    gil::color_convert(s, d);
    vp_assert(gil::at_c<0>(d) == y, "luminance.color_convert_uses_it");
}
}
