// C14: any_image / any_image_view value semantics: copy, assignment and equality of any_image are deep, of any_image_view
// shallow; recreate preserves the held type; view()/const_view() wrap the held image's view.
// Compile-time shape: C14_ALT (held alternative of a), C14_ALTB (alternative of the second object b), C14_STDALLOC
// (1: the library's own typedefs gray8_image_t... with std::allocator; 0: the same images over the checking allocator).
// Run-time-constant shape (vp_param): 0 = operation, 1,2 = dims of a, 3,4 = dims of b / new shape, 5,6 = position of the pixel
// that may differ (equality; outside = none), 7 = alignment for recreate.
// Symbolic: pixel contents, probed pixel (x,y), written pixel values.
#include <boost/gil.hpp>
#include <boost/gil/extension/dynamic_image/dynamic_image_all.hpp>
#include "vp.hpp"
#include <typeinfo>
namespace gil = boost::gil;
namespace v2 = boost::variant2;
#ifndef C14_ALT
#define C14_ALT 0
#endif
#ifndef C14_ALTB
#define C14_ALTB C14_ALT
#endif
#if defined(C14_STDALLOC) && C14_STDALLOC
using img0_t = gil::gray8_image_t; using img1_t = gil::rgb8_image_t; using img2_t = gil::rgb8_planar_image_t;
static void no_leak() {}
static int alloc_calls() { return 0; }
#else
using alloc_t = chk_alloc<unsigned char>;
using img0_t = gil::image<gil::gray8_pixel_t, false, alloc_t>;
using img1_t = gil::image<gil::rgb8_pixel_t, false, alloc_t>;
using img2_t = gil::image<gil::rgb8_pixel_t, true, alloc_t>;
static void no_leak() { vp_check_no_leak(); }
static int alloc_calls() { return vp_alloc_calls(); }
#endif
using any_img_t = gil::any_image<img0_t, img1_t, img2_t>;
using any_view_t = gil::any_image_view<gil::gray8_view_t, gil::rgb8_view_t, gil::rgb8_planar_view_t>;
using any_cview_t = gil::any_image_view<gil::gray8c_view_t, gil::rgb8c_view_t, gil::rgb8c_planar_view_t>;
static_assert(std::is_same<any_img_t::view_t, any_view_t>::value, "any_image::view_t is the variant of the images' views");
static_assert(std::is_same<any_img_t::const_view_t, any_cview_t>::value, "any_image::const_view_t is the variant of the images' const views");
using img_a_t = boost::mp11::mp_at_c<any_img_t, C14_ALT>;
using img_b_t = boost::mp11::mp_at_c<any_img_t, C14_ALTB>;
using view_a_t = img_a_t::view_t; using view_b_t = img_b_t::view_t;
using px_a_t = view_a_t::value_type;

template <class V> static void fill_view(V const& v) {
    for (int y = 0; y < (int)v.height(); ++y) for (int x = 0; x < (int)v.width(); ++x) { typename V::value_type p; vp_fill(&p, sizeof p); v(x, y) = p; }
}
static px_a_t sym_px() { px_a_t p; vp_fill(&p, sizeof p); return p; }
static bool same_storage(gil::gray8_view_t const& a, gil::gray8_view_t const& b) { return &a(0, 0) == &b(0, 0); }
static bool same_storage(gil::rgb8_view_t const& a, gil::rgb8_view_t const& b) { return &a(0, 0) == &b(0, 0); }
static bool same_storage(gil::rgb8_planar_view_t const& a, gil::rgb8_planar_view_t const& b) { return &a(0, 0)[0] == &b(0, 0)[0] && &a(0, 0)[1] == &b(0, 0)[1] && &a(0, 0)[2] == &b(0, 0)[2]; }

enum { OP_OBSERVE = 0, OP_COPY_CTOR = 1, OP_COPY_ASSIGN = 2, OP_ASSIGN_CONCRETE = 3, OP_EQUALITY = 4, OP_RECREATE = 5, OP_RECREATE_PT = 6,
       OP_VIEW_COPY = 7, OP_VIEW_ASSIGN = 8, OP_VIEW_EQUALITY = 9, OP_VIEW_ASSIGN_CONCRETE = 10, OP_ASSIGN_OTHER_LIST = 11, OP_VIEW_ASSIGN_OTHER_LIST = 12 };
// b := a except that the first channel of the pixel at the concrete position (vp_param 5,6) is xor-ed with (delta & 1)
template <class Img> static void make_almost_equal(Img& ia, Img& ib, int W, int H, unsigned char& delta) {
    auto va = gil::view(ia); auto vb = gil::view(ib);
    for (int y = 0; y < H; ++y) for (int x = 0; x < W; ++x) vb(x, y) = va(x, y);
    int ex = vp_param(5), ey = vp_param(6);
    if (ex >= 0 && ex < W && ey >= 0 && ey < H) { typename Img::view_t::value_type q(vb(ex, ey)); gil::at_c<0>(q) = (gil::at_c<0>(q) ^ (delta & 1)); vb(ex, ey) = q; } else delta = 0;
}
template <class I1, class I2> static void make_almost_equal(I1&, I2&, int, int, unsigned char&) {}

// deep copy check: c holds alternative C14_ALT with the pixels of a, in storage of its own
static void check_deep(any_img_t& a, any_img_t& c, int W, int H, const char* l_index, const char* l_equal, const char* l_storage, const char* l_indep) {
    vp_assert(c.index() == C14_ALT && a.index() == C14_ALT, l_index);
    vp_assert(c.dimensions() == a.dimensions(), l_index);
    view_a_t va = gil::view(v2::get<C14_ALT>(a)); view_a_t vc = gil::view(v2::get<C14_ALT>(c));
    if (W > 0 && H > 0) {
        int x = vp_range(0, 3); int y = vp_range(0, 3); vp_assume(x < W && y < H);
        vp_assert(vc(x, y) == va(x, y), l_equal);
        vp_assert(!same_storage(va, vc), l_storage);
        px_a_t old = va(x, y); px_a_t nw = sym_px();
        vc(x, y) = nw;                                   // a write to the copy ...
        vp_assert(va(x, y) == old, l_indep);             // ... does not reach the original
        px_a_t oldc = vc(x, y); px_a_t nw2 = sym_px();
        va(x, y) = nw2;                                  // and vice versa
        vp_assert(vc(x, y) == oldc, l_indep);
    }
}
extern "C" void h_img(void) {
    int op = vp_param(0);
    int W = vp_param(1), H = vp_param(2), W2 = vp_param(3), H2 = vp_param(4);
    {
        any_img_t a(img_a_t(W, H));
        fill_view(gil::view(v2::get<C14_ALT>(a)));
        img_a_t& ia = v2::get<C14_ALT>(a);
        if (op == OP_OBSERVE) {
            vp_assert(a.index() == C14_ALT, "img.holds_alternative");
            vp_assert(a.dimensions() == ia.dimensions() && a.dimensions() == gil::point_t(W, H), "img.dimensions");
            vp_assert(a.width() == W && a.height() == H, "img.width_height");
            vp_assert(a.num_channels() == (std::size_t)gil::num_channels<img_a_t>::value, "img.num_channels");
            any_view_t av = gil::view(a);
            vp_assert(av.index() == C14_ALT, "img.view_holds_corresponding_alternative");
            vp_assert(v2::get<C14_ALT>(av) == gil::view(ia), "img.view_is_view_of_held_image");
            vp_assert(av.dimensions() == a.dimensions() && av.num_channels() == a.num_channels() && av.size() == (std::size_t)(W * H), "img.view_observers");
            any_img_t const& ca = a;
            any_cview_t cv = gil::const_view(ca);
            vp_assert(cv.index() == C14_ALT, "img.const_view_holds_corresponding_alternative");
            vp_assert(v2::get<C14_ALT>(cv) == gil::const_view(ia), "img.const_view_is_const_view_of_held_image");
        }
        if (op == OP_COPY_CTOR) {
            any_img_t c(a);
            check_deep(a, c, W, H, "img.copy_ctor_keeps_alternative_and_dims", "img.copy_ctor_pixels_equal", "img.copy_ctor_own_storage", "img.copy_ctor_is_deep");
        }
        if (op == OP_COPY_ASSIGN) {
            any_img_t c(img_b_t(W2, H2));
            c = a;
            check_deep(a, c, W, H, "img.copy_assign_keeps_alternative_and_dims", "img.copy_assign_pixels_equal", "img.copy_assign_own_storage", "img.copy_assign_is_deep");
        }
        if (op == OP_ASSIGN_CONCRETE) {   // template operator=(Image const&)
            any_img_t c(img_b_t(W2, H2));
            c = ia;
            check_deep(a, c, W, H, "img.assign_image_keeps_alternative_and_dims", "img.assign_image_pixels_equal", "img.assign_image_own_storage", "img.assign_image_is_deep");
        }
        if (op == OP_ASSIGN_OTHER_LIST) {   // operator=(any_image<OtherImages...> const&): a type list that is a permuted subset
            gil::any_image<img2_t, img_a_t> o(ia);
            any_img_t c(img_b_t(W2, H2));
            c = o;
            check_deep(a, c, W, H, "img.assign_other_list_keeps_alternative_and_dims", "img.assign_other_list_pixels_equal", "img.assign_other_list_own_storage", "img.assign_other_list_is_deep");
        }
        if (op == OP_EQUALITY) {
            // b: second image of alternative C14_ALTB.  Same alternative and dims: b := a, then one channel of one pixel (concrete
            // position vp_param 5,6; outside = none) changes by a symbolic amount; otherwise b's contents are symbolic.
            any_img_t b(img_b_t(W2, H2));
            unsigned char delta = vp_nondet_u8();
            bool same_shape = (C14_ALT == C14_ALTB) && W == W2 && H == H2;
            if (same_shape) make_almost_equal(ia, v2::get<C14_ALTB>(b), W, H, delta);
            else fill_view(gil::view(v2::get<C14_ALTB>(b)));
            bool eq = (a == b); bool ne = (a != b);
            vp_assert(ne == !eq, "img.not_equal_is_negation_of_equal");
            if (same_shape) vp_assert(eq == ((delta & 1) == 0), "img.equality_is_deep_iff_all_pixels_equal");
            else vp_assert(!eq, "img.different_alternative_or_dims_not_equal");
            any_img_t const& ra = a;
            vp_assert(ra == a, "img.equality_reflexive");
        }
        if (op == OP_VIEW_COPY || op == OP_VIEW_ASSIGN || op == OP_VIEW_ASSIGN_CONCRETE || op == OP_VIEW_ASSIGN_OTHER_LIST) {
            any_img_t b(img_b_t(W2, H2));
            int calls = alloc_calls();
            any_view_t av = gil::view(a);
            any_view_t c = gil::view(b);
            if (op == OP_VIEW_COPY) { any_view_t t(av); c = t; }
            if (op == OP_VIEW_ASSIGN) c = av;
            if (op == OP_VIEW_ASSIGN_CONCRETE) c = gil::view(ia);
            if (op == OP_VIEW_ASSIGN_OTHER_LIST) { gil::any_image_view<gil::rgb8_planar_view_t, view_a_t> o(gil::view(ia)); c = o; }
            vp_assert(alloc_calls() == calls, "view.copy_allocates_nothing");
            vp_assert(c.index() == C14_ALT, "view.copy_keeps_alternative");
            vp_assert(v2::get<C14_ALT>(c) == gil::view(ia), "view.copy_is_the_same_view");
            vp_assert(c == av && !(c != av), "view.copy_compares_equal");
            if (W > 0 && H > 0) {
                int x = vp_range(0, 3); int y = vp_range(0, 3); vp_assume(x < W && y < H);
                view_a_t vc = v2::get<C14_ALT>(c);
                vp_assert(same_storage(vc, gil::view(ia)), "view.copy_is_shallow_same_storage");
                px_a_t nw = sym_px();
                vc(x, y) = nw;                                                     // a write through the copy ...
                vp_assert(gil::view(ia)(x, y) == nw, "view.copy_is_shallow_write_visible");   // ... is seen through the image
            }
        }
        if (op == OP_VIEW_EQUALITY) {
            // shallow: a deep copy of the image has equal pixels but its view is a different view
            any_img_t b(a);
            any_view_t av = gil::view(a); any_view_t bv = gil::view(b);
            if (W > 0 && H > 0) vp_assert(!(av == bv) && (av != bv), "view.equality_is_shallow_distinct_storage_not_equal");
            any_view_t av2 = gil::view(a);
            vp_assert(av == av2 && !(av != av2), "view.equality_same_view_equal");
            if (W > 1) { any_view_t sub = gil::subimage_view(av, 0, 0, W - 1, H); vp_assert(sub != av, "view.equality_different_dims_not_equal"); }
            any_img_t o(img_b_t(W, H));
            any_view_t ov = gil::view(o);
            if (C14_ALT != C14_ALTB) vp_assert(ov != av && !(ov == av), "view.equality_different_alternative_not_equal");
        }
        if (op == OP_RECREATE || op == OP_RECREATE_PT) {
            unsigned al = (unsigned)vp_param(7);
            if (op == OP_RECREATE) a.recreate(W2, H2, al); else a.recreate(gil::point_t(W2, H2), al);
            vp_assert(a.index() == C14_ALT, "img.recreate_preserves_held_type");
            vp_assert(a.dimensions() == gil::point_t(W2, H2) && a.width() == W2 && a.height() == H2, "img.recreate_dimensions");
            any_view_t av = gil::view(a);
            vp_assert(av.index() == C14_ALT && av.dimensions() == gil::point_t(W2, H2), "img.recreate_view");
            fill_view(v2::get<C14_ALT>(av));   // the new storage holds W2 x H2 pixels (object bounds)
            // the held image was recreated as the concrete image type would be: same row stride for the requested alignment (an empty image has no rows to stride over)
            if (W2 > 0 && H2 > 0) { img_a_t ref(W2, H2, al); vp_assert(v2::get<C14_ALT>(av).pixels().row_size() == gil::view(ref).pixels().row_size(), "img.recreate_row_stride_as_concrete_image"); }
        }
    }
    no_leak();
}
