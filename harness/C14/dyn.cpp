// C14: run-time typed views/images (any_image_view / any_image) behave like the concrete object they hold.
// Type list {gray8, rgb8 interleaved, rgb8 planar}.  Compile-time shape: C14_ALT (held alternative, 0..2), C14_XF (transformation).
// Run-time-constant shape (vp_param): 0,1 = width,height.  Symbolic: pixel contents, probed pixel (x,y), sub-image rectangle,
// subsampling steps, channel index.
#include "views.hpp"
#include <boost/gil/extension/dynamic_image/dynamic_image_all.hpp>
#include <boost/gil/extension/dynamic_image/dynamic_at_c.hpp>
#include <typeinfo>
#include <cstring>
#ifdef C14_WITH_RESAMPLE
#include <boost/gil/extension/numeric/sampler.hpp>
#include <boost/gil/extension/numeric/resample.hpp>
#endif
namespace gil = boost::gil;
namespace v2 = boost::variant2;
using any_view_t = gil::any_image_view<gil::gray8_view_t, gil::rgb8_view_t, gil::rgb8_planar_view_t>;
template <int K> struct alt;
template <> struct alt<0> { using src = src_gray8i; };
template <> struct alt<1> { using src = src_rgb8i; };
template <> struct alt<2> { using src = src_rgb8p; };
#ifndef C14_ALT
#define C14_ALT 0
#endif
using SRC_A = alt<C14_ALT>::src;
using view_a_t = SRC_A::view_t;
static_assert(std::is_same<view_a_t, boost::mp11::mp_at_c<any_view_t, C14_ALT>>::value, "alternative type");

template <class S> static typename S::view_t make_filled(S& s, int w, int h) {
    s.set(w, h); s.fixpad = 1;
    auto v = s.make();
    for (int k = 0; k < S::nplanes; ++k) vp_fill(s.plane(k), s.plane_size());
    return v;
}

// ---------------------------------------------------------------------------------------------- observers
struct same_type_and_dims {
    template <class V> bool operator()(V const& a, V const& b) const { return a.dimensions() == b.dimensions(); }
    template <class V, class U> bool operator()(V const&, U const&) const { return false; }
};
extern "C" void h_observers(void) {
    int W = vp_param(0), H = vp_param(1);
    SRC_A s; view_a_t cv = make_filled(s, W, H);
    any_view_t av(cv);
    vp_assert(av.index() == C14_ALT, "obs.view_holds_alternative");
    vp_assert(av.dimensions() == cv.dimensions(), "obs.view_dimensions");
    vp_assert(av.width() == cv.width() && av.height() == cv.height(), "obs.view_width_height");
    vp_assert(av.num_channels() == (std::size_t)gil::num_channels<view_a_t>::value, "obs.view_num_channels");
    vp_assert(av.size() == cv.size() && av.size() == (std::size_t)(W * H), "obs.view_size");
    vp_assert(v2::get<C14_ALT>(av) == cv, "obs.view_get_is_the_held_view");
    // deprecated spelling of variant2::visit
    vp_assert(gil::apply_operation(av, gil::detail::any_type_get_dimensions()) == cv.dimensions(), "obs.apply_operation_is_visit");
    vp_assert(gil::apply_operation(av, av, same_type_and_dims()), "obs.apply_operation_binary_is_visit");
    // dynamic_at_c: run-time index into a compile-time integer list
    int idx = vp_range(0, 2);
    vp_assert((gil::at_c<boost::mp11::mp_list_c<int, 7, 11, 13>, int>((std::size_t)idx)) == (idx == 0 ? 7 : idx == 1 ? 11 : 13), "obs.dynamic_at_c_returns_nth_value");
    any_view_t::const_t cav(typename view_a_t::const_t{cv});
    vp_assert(cav.index() == C14_ALT && cav.dimensions() == cv.dimensions() && cav.size() == cv.size(), "obs.const_view_observers");
}

// ---------------------------------------------------------------------------------------------- view transformations
#define XF_FLIPUD 1
#define XF_FLIPLR 2
#define XF_TRANSPOSED 3
#define XF_ROT90CW 4
#define XF_ROT90CCW 5
#define XF_ROT180 6
#define XF_SUBIMAGE 7
#define XF_SUBIMAGE_PT 8
#define XF_SUBSAMPLED 9
#define XF_SUBSAMPLED_PT 10
#define XF_NTH_CHANNEL 11
#define XF_COLOR_CONVERTED 12
#define XF_COLOR_CONVERTED_CC 13
#ifndef C14_XF
#define C14_XF XF_FLIPUD
#endif
// user colour converter (cheap on purpose: the default rgb->gray luminance on both sides of an equality costs 30 s per query):
// every destination channel := first source channel xor 0x5a
struct first_cc {
    template <class P, class Q> void operator()(P const& p, Q& q) const { unsigned char c = (unsigned char)(gil::at_c<0>(p) ^ 0x5a); gil::static_fill(q, c); }
};
#ifndef C14_CCDST
#define C14_CCDST gil::rgb8_pixel_t
#endif
template <class T> struct held_as {   // pointer to the held object if it has type T
    T const* operator()(T const& g) const { return &g; }
    template <class O> T const* operator()(O const&) const { return nullptr; }
};
extern "C" void h_xf(void) {
    int W = vp_param(0), H = vp_param(1);
    SRC_A s; view_a_t cv = make_filled(s, W, H);
    any_view_t av(cv);
#if C14_XF == XF_FLIPUD
    auto r = gil::flipped_up_down_view(av); auto e = gil::flipped_up_down_view(cv);
#elif C14_XF == XF_FLIPLR
    auto r = gil::flipped_left_right_view(av); auto e = gil::flipped_left_right_view(cv);
#elif C14_XF == XF_TRANSPOSED
    auto r = gil::transposed_view(av); auto e = gil::transposed_view(cv);
#elif C14_XF == XF_ROT90CW
    auto r = gil::rotated90cw_view(av); auto e = gil::rotated90cw_view(cv);
#elif C14_XF == XF_ROT90CCW
    auto r = gil::rotated90ccw_view(av); auto e = gil::rotated90ccw_view(cv);
#elif C14_XF == XF_ROT180
    auto r = gil::rotated180_view(av); auto e = gil::rotated180_view(cv);
#elif C14_XF == XF_SUBIMAGE || C14_XF == XF_SUBIMAGE_PT
    int x0 = vp_range(0, 3); int y0 = vp_range(0, 3); int dw = vp_range(0, 3); int dh = vp_range(0, 3);
    vp_assume(x0 <= W && dw <= W - x0 && y0 <= H && dh <= H - y0);
#if C14_XF == XF_SUBIMAGE
    auto r = gil::subimage_view(av, x0, y0, dw, dh);
#else
    auto r = gil::subimage_view(av, gil::point_t(x0, y0), gil::point_t(dw, dh));
#endif
    auto e = gil::subimage_view(cv, x0, y0, dw, dh);
#elif C14_XF == XF_SUBSAMPLED || C14_XF == XF_SUBSAMPLED_PT
    int xs = vp_range(1, 3); int ys = vp_range(1, 3);
#if C14_XF == XF_SUBSAMPLED
    auto r = gil::subsampled_view(av, xs, ys);
#else
    auto r = gil::subsampled_view(av, gil::point_t(xs, ys));
#endif
    auto e = gil::subsampled_view(cv, xs, ys);
#elif C14_XF == XF_NTH_CHANNEL
    int n = vp_range(0, gil::num_channels<view_a_t>::value - 1);
    auto r = gil::nth_channel_view(av, n); auto e = gil::nth_channel_view(cv, n);
#elif C14_XF == XF_COLOR_CONVERTED
    auto r = gil::color_converted_view<C14_CCDST>(av); auto e = gil::color_converted_view<C14_CCDST>(cv);
#elif C14_XF == XF_COLOR_CONVERTED_CC
    auto r = gil::color_converted_view<C14_CCDST>(av, first_cc()); auto e = gil::color_converted_view<C14_CCDST>(cv, first_cc());
#endif
    using res_t = decltype(r); using exp_t = decltype(e);
    static_assert(std::is_same<exp_t, boost::mp11::mp_at_c<res_t, C14_ALT>>::value, "result alternative has the type of the concrete transformation's result");
    // the held object has the type of the concrete result; where that type occurs once in the result list (every transformation
    // except nth_channel, whose result list maps gray8 and planar rgb8 to the same view type) it sits at the corresponding index
    exp_t const* gp = v2::visit(held_as<exp_t>(), r);
    vp_assert(gp != nullptr && (boost::mp11::mp_count<res_t, exp_t>::value != 1 || r.index() == C14_ALT), "xf.result_holds_corresponding_alternative");
    if (gp == nullptr) return;
    exp_t const& g = *gp;
    vp_assert(g == e, "xf.result_view_equals_concrete_result");
    vp_assert(r.dimensions() == e.dimensions(), "xf.result_dimensions");
    vp_assert(r.size() == e.size(), "xf.result_size");
    vp_assert(r.num_channels() == (std::size_t)gil::num_channels<exp_t>::value, "xf.result_num_channels");
    int ew = (int)e.width(), eh = (int)e.height();
    if (ew > 0 && eh > 0) {
        int x = vp_range(0, 3); int y = vp_range(0, 3); vp_assume(x < ew && y < eh);
#if C14_XF == XF_COLOR_CONVERTED || C14_XF == XF_COLOR_CONVERTED_CC
        typename exp_t::value_type a = g(x, y); typename exp_t::value_type b = e(x, y);
        vp_assert(a == b, "xf.result_pixel_equals_concrete_pixel");
#else
        vp_assert(same_px(g(x, y), e(x, y)), "xf.result_pixel_is_concrete_pixel");
#endif
    }
}

// ---------------------------------------------------------------------------------------------- algorithms
// Binary algorithms: source alternative C14_ALT, destination alternative C14_ALTB (ordered pair), overload form C14_FORM
// (0: variant,variant  1: variant,concrete view  2: concrete view,variant).  The expected destination is produced by the SAME
// algorithm on the concrete views (compatible pair) or is the untouched initial buffer (incompatible pair => std::bad_cast):
// one symbolic byte (plane k, index i) of the exact-size destination buffer (row padding included) is compared.
#define ALG_COPY 1
#define ALG_CONVERT 2
#define ALG_CONVERT_CC 3
#define ALG_EQUAL 4
#define ALG_FILL 5
#define ALG_FOREACH 6
#define ALG_RESAMPLE 7   /* nearest neighbour, integer translation (vp_param 2,3): concrete matrix, symbolic contents */
#ifndef C14_ALTB
#define C14_ALTB C14_ALT
#endif
#ifndef C14_ALG
#define C14_ALG ALG_COPY
#endif
#ifndef C14_FORM
#define C14_FORM 0
#endif
#ifndef C14_VAL
#define C14_VAL gil::rgb8_pixel_t
#endif
using SRC_B = alt<C14_ALTB>::src;
using view_b_t = SRC_B::view_t;
// gray8 is incompatible with both rgb8 organisations; interleaved and planar rgb8 are compatible with each other
constexpr bool pair_compatible = (C14_ALT == C14_ALTB) || (C14_ALT != 0 && C14_ALTB != 0);
struct stamp {   // for_each_pixel functor: writes the call ordinal into the first channel, counts the calls
    int n = 0;
    template <class P> void operator()(P&& p) { gil::at_c<0>(p) = (unsigned char)(n * 37 + 11); ++n; }
};
struct dst_state {
    SRC_B d; view_b_t dv; unsigned char save[SRC_B::nplanes][32]; unsigned long n;
    void init(int W, int H) { dv = make_filled(d, W, H); n = d.plane_size(); for (int k = 0; k < SRC_B::nplanes; ++k) std::memcpy(save[k], d.plane(k), n); }
    void restore() { for (int k = 0; k < SRC_B::nplanes; ++k) std::memcpy(d.plane(k), save[k], n); }
    void snapshot() { for (int k = 0; k < SRC_B::nplanes; ++k) std::memcpy(save[k], d.plane(k), n); }
};
template <class SV, class DV> static void run_alg(SV const& s, DV const& d) {
#if C14_ALG == ALG_COPY
    gil::copy_pixels(s, d);
#elif C14_ALG == ALG_CONVERT
    gil::copy_and_convert_pixels(s, d);
#elif C14_ALG == ALG_CONVERT_CC
    gil::copy_and_convert_pixels(s, d, first_cc());
#elif C14_ALG == ALG_RESAMPLE
    gil::resample_pixels(s, d, gil::matrix3x2<double>::get_translate((double)vp_param(2), (double)vp_param(3)), gil::nearest_neighbor_sampler());
#endif
}
// concrete operations, instantiated only for the pairs for which they compile
template <class SV, class DV> static void conc_alg(SV const& s, DV const& d, std::true_type) { run_alg(s, d); }
template <class SV, class DV> static void conc_alg(SV const&, DV const&, std::false_type) {}
template <class SV, class DV> static bool px_eq(SV const& s, DV const& d, int x, int y, std::true_type) { return d(x, y) == s(x, y); }
template <class SV, class DV> static bool px_eq(SV const&, DV const&, int, int, std::false_type) { return true; }
extern "C" void h_alg2(void) {
    int W = vp_param(0), H = vp_param(1);
    SRC_A s; view_a_t sv = make_filled(s, W, H);
    dst_state D; D.init(W, H); view_b_t dv = D.dv;
    int k = vp_range(0, SRC_B::nplanes - 1);
    unsigned long i = vp_nondet_u64(); vp_assume(i < D.n || (D.n == 0 && i == 0));   // empty buffer (a dimension is 0 and no padding): nothing to probe
    // ---- expected: the concrete operation (copy_and_convert never throws: incompatible pairs are colour-converted)
    constexpr bool ok = pair_compatible || (C14_ALG != ALG_COPY && C14_ALG != ALG_RESAMPLE);
    conc_alg(sv, dv, std::integral_constant<bool, ok>());
    unsigned char expected = D.n ? D.d.plane(k)[i] : 0;
    D.restore();
    // ---- the run-time typed operation
    any_view_t as(sv); any_view_t ad(dv);
    bool threw = false;
    try {
#if C14_FORM == 0
        run_alg(as, ad);
#elif C14_FORM == 1
        run_alg(as, dv);
#else
        run_alg(sv, ad);
#endif
    } catch (std::bad_cast const&) { threw = true; }
    vp_assert(threw == !ok, "alg.bad_cast_iff_incompatible");
    vp_assert((D.n ? D.d.plane(k)[i] : 0) == expected, "alg.destination_equals_concrete_result_or_unchanged");
#if C14_ALG == ALG_COPY
    if (ok && W > 0 && H > 0) { int x = vp_range(0, 3); int y = vp_range(0, 3); vp_assume(x < W && y < H);
        vp_assert(px_eq(sv, dv, x, y, std::integral_constant<bool, pair_compatible>()), "alg.copied_pixel_equals_source"); }
#endif
}
// equal_pixels: destination := source (per-pixel), then one channel of one pixel (concrete position vp_param 2,3; outside = none)
// is changed by a symbolic amount (C04's scheme: fully symbolic contents make every early exit symbolic)
template <class SV, class DV> static void assign_px(SV const& s, DV const& d, int W, int H) { for (int y = 0; y < H; ++y) for (int x = 0; x < W; ++x) d(x, y) = s(x, y); }
template <class SV, class DV> static bool conc_equal(SV const& sv, DV const& dv, int W, int H, unsigned char& delta, std::true_type) {
    assign_px(sv, dv, W, H);
    int ex = vp_param(2), ey = vp_param(3);
    if (ex >= 0 && ex < W && ey >= 0 && ey < H) { typename DV::value_type q(dv(ex, ey)); gil::at_c<0>(q) = (gil::at_c<0>(q) ^ (delta & 1)); dv(ex, ey) = q; } else delta = 0;
#ifdef C14_EQ_GROUND_TRUTH
    return (delta & 1) == 0;
#else
    return gil::equal_pixels(sv, dv);
#endif
}
template <class SV, class DV> static bool conc_equal(SV const&, DV const&, int, int, unsigned char&, std::false_type) { return true; }
extern "C" void h_equal(void) {
    int W = vp_param(0), H = vp_param(1);
    SRC_A s; view_a_t sv = make_filled(s, W, H);
    dst_state D; D.init(W, H); view_b_t dv = D.dv;
    unsigned char delta = vp_nondet_u8();
    bool expected = conc_equal(sv, dv, W, H, delta, std::integral_constant<bool, pair_compatible>());
    any_view_t as(sv); any_view_t ad(dv);
    bool threw = false; bool got = false;
    try {
#if C14_FORM == 0
        got = gil::equal_pixels(as, ad);
#elif C14_FORM == 1
        got = gil::equal_pixels(as, dv);
#else
        got = gil::equal_pixels(sv, ad);
#endif
    } catch (std::bad_cast const&) { threw = true; }
    vp_assert(threw == !pair_compatible, "equal.bad_cast_iff_incompatible");
    if (pair_compatible) vp_assert(got == expected, "equal.result_equals_concrete_result");
    if (pair_compatible) vp_assert(got == ((delta & 1) == 0), "equal.result_iff_all_pixels_equal");
}
// fill_pixels(variant, value) and for_each_pixel(variant, functor): destination alternative C14_ALTB
template <class DV, class P> static void conc_fill(DV const& d, P const& v, std::true_type) { gil::fill_pixels(d, v); }
template <class DV, class P> static void conc_fill(DV const&, P const&, std::false_type) {}
extern "C" void h_alg1(void) {
    int W = vp_param(0), H = vp_param(1);
    dst_state D; D.init(W, H); view_b_t dv = D.dv;
    int k = vp_range(0, SRC_B::nplanes - 1);
    unsigned long i = vp_nondet_u64(); vp_assume(i < D.n || (D.n == 0 && i == 0));   // empty buffer (a dimension is 0 and no padding): nothing to probe
    any_view_t ad(dv);
    bool threw = false;
#if C14_ALG == ALG_FILL
    C14_VAL val; vp_fill(&val, sizeof val);
    constexpr bool ok = (gil::num_channels<C14_VAL>::value == gil::num_channels<view_b_t>::value);   // gray value <-> gray view, rgb/bgr value <-> rgb views
    conc_fill(dv, val, std::integral_constant<bool, ok>());
    unsigned char expected = D.n ? D.d.plane(k)[i] : 0;
    D.restore();
    try { gil::fill_pixels(ad, val); } catch (std::bad_cast const&) { threw = true; }
#else
    constexpr bool ok = true;
    stamp e = gil::for_each_pixel(dv, stamp());
    unsigned char expected = D.n ? D.d.plane(k)[i] : 0;
    D.restore();
    stamp g;
    try { g = gil::for_each_pixel(ad, stamp()); } catch (std::bad_cast const&) { threw = true; }
    vp_assert(g.n == e.n && g.n == W * H, "alg.for_each_functor_called_once_per_pixel_and_returned");
#endif
    vp_assert(threw == !ok, "alg.bad_cast_iff_incompatible");
    vp_assert((D.n ? D.d.plane(k)[i] : 0) == expected, "alg.destination_equals_concrete_result_or_unchanged");
}
