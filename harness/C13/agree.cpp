// C13: all ways of reading one file agree (BMP, PNM, TARGA through FILE* / file name).
// Compile-time shape: FORMAT, MODE (1 partial read == crop, 2 read_and_convert == color_convert of the native read, 3 read_view into
// a pre-allocated view == read_image and writes nothing outside it, 4 file name == FILE*, 8 std::istream == FILE*, 9 scanline reader row after skipped rows == image row, 10 read_image into any_image == read_image, 11 view smaller than the requested sub-rectangle rejected, 5 read_image_info == dimensions of read_image,
// 6 destination view smaller than the region -> exception and destination untouched), PIX (native pixel type), CPIX (conversion target).
// Run-time-constant shape: vp_param(0) = file length, 1..11 = the format's header fields (io.hpp), 12,13 = image width,height,
// 14..17 = sub-rectangle x0,y0,dx,dy.  Symbolic: pixel data and all non-structural header bytes, probed coordinates.
#include "../io/io.hpp"
#include <istream>
#include <boost/gil/extension/dynamic_image/any_image.hpp>
#if FORMAT == 1
#include <boost/gil/extension/io/bmp.hpp>
using tag_t = gil::bmp_tag;
static void make_file(file_builder& f) { bmp_file(f, 1); }
#elif FORMAT == 2
#include <boost/gil/extension/io/pnm.hpp>
using tag_t = gil::pnm_tag;
static void make_file(file_builder& f) { pnm_file(f, 1); }
#else
#include <boost/gil/extension/io/targa.hpp>
using tag_t = gil::targa_tag;
// a valid file: without a colour map (type 0) the colour map specification (bytes 3..7) is zero; GIL rejects anything else
static void make_file(file_builder& f) { targa_file(f, 1); if (vp_param(2) == 0) for (unsigned long i = 3; i < 8; ++i) f.u8(i, 0); }
#endif
using pix_t = PIX;
using img_t = gil::image<pix_t, false>;
#ifndef CPIX
#define CPIX gil::gray8_pixel_t
#endif
using cimg_t = gil::image<CPIX, false>;
#ifndef SPIX
#define SPIX pix_t
#endif

extern "C" void h_agree(void) {
    file_builder f((unsigned long)vp_param(0));
    make_file(f);
    int W = vp_param(12), H = vp_param(13);
    img_t R;
#if REF_CONVERT   /* palette variants: the file's native type is not an image type of its own; the reference is the converting read */
    { FILE* fp = (FILE*)vp_fopen_read(); gil::read_and_convert_image(fp, R, tag_t()); }
#else
    { FILE* fp = (FILE*)vp_fopen_read(); gil::read_image(fp, R, tag_t()); }
#endif
    vp_assert(R.width() == W && R.height() == H, "agree.reference_read_dimensions");
    int x = vp_range(0, 7); int y = vp_range(0, 3);
#if MODE == 1
    int x0 = vp_param(14), y0 = vp_param(15), dx = vp_param(16), dy = vp_param(17);
    img_t P;
#if REF_CONVERT
    { FILE* fp = (FILE*)vp_fopen_read(); gil::read_and_convert_image(fp, P, gil::image_read_settings<tag_t>(gil::point_t(x0, y0), gil::point_t(dx, dy))); }
#else
    { FILE* fp = (FILE*)vp_fopen_read(); gil::read_image(fp, P, gil::image_read_settings<tag_t>(gil::point_t(x0, y0), gil::point_t(dx, dy))); }
#endif
    vp_assert(P.width() == dx && P.height() == dy, "agree.partial_dimensions");
    vp_assume(x < dx && y < dy);
    vp_assert(gil::view(P)(x, y) == gil::view(R)(x0 + x, y0 + y), "agree.partial_read_is_crop");
#elif MODE == 2
    cimg_t C;
    { FILE* fp = (FILE*)vp_fopen_read(); gil::read_and_convert_image(fp, C, tag_t()); }
    vp_assert(C.width() == W && C.height() == H, "agree.convert_dimensions");
    x = vp_param(18); y = vp_param(19);   // converting reads: the compared pixel is concrete per query (luminance arithmetic at a symbolic position had no verdict)
    { CPIX e; gil::color_convert(gil::view(R)(x, y), e); vp_assert(gil::view(C)(x, y) == e, "agree.read_and_convert_is_color_convert"); }
#elif MODE == 3
    img_t D(W + 2, H + 1);
    pix_t bg; vp_fill(&bg, sizeof bg);
    gil::fill_pixels(gil::view(D), bg);
    { FILE* fp = (FILE*)vp_fopen_read(); gil::read_view(fp, gil::subimage_view(gil::view(D), 1, 1, W, H), tag_t()); }
    int gx = vp_range(0, 9); int gy = vp_range(0, 4); vp_assume(gx < W + 2 && gy < H + 1);
    bool inside = gx >= 1 && gx < 1 + W && gy >= 1 && gy < 1 + H;
    if (inside) vp_assert(gil::view(D)(gx, gy) == gil::view(R)(gx - 1, gy - 1), "agree.read_view_equals_read_image");
    else vp_assert(gil::view(D)(gx, gy) == bg, "agree.read_view_writes_nothing_outside_the_view");
#elif MODE == 4
    img_t N;
    { const char* nm = vp_file_name(); gil::read_image(nm, N, tag_t()); }
    vp_assert(N.dimensions() == R.dimensions(), "agree.name_and_file_dimensions");
    vp_assume(x < W && y < H);
    vp_assert(gil::view(N)(x, y) == gil::view(R)(x, y), "agree.name_and_file_pixels");
#elif MODE == 8
    // the same bytes through a std::istream (GIL's istream_device over the stream model) give the same image as through FILE*
    img_t N;
    { std::istream& in = *static_cast<std::istream*>(vp_istream()); gil::read_image(in, N, tag_t()); }
    vp_assert(N.dimensions() == R.dimensions(), "agree.istream_and_file_dimensions");
    vp_assume(x < W && y < H);
    vp_assert(gil::view(N)(x, y) == gil::view(R)(x, y), "agree.istream_and_file_pixels");
#elif MODE == 5
    { FILE* fp = (FILE*)vp_fopen_read(); auto b = gil::read_image_info(fp, tag_t());
      vp_assert((long)b._info._width == (long)R.width() && (long)b._info._height == (long)R.height(), "agree.info_reports_read_image_dimensions"); }
#elif MODE == 7
    // scanline reader: row y of the file, read through the scanline reader, holds the same pixels as row y of the reference image
    // (palette BMP: scanlines are rgba8 after palette lookup; the reference is the converting read into rgba8)
    {
        FILE* fp = (FILE*)vp_fopen_read();
        using device_t = typename gil::get_read_device<FILE*, tag_t>::type;
        using reader_t = gil::scanline_reader<device_t, tag_t>;
        device_t dev(fp);
        reader_t reader(dev, gil::image_read_settings<tag_t>());
        vp_assert((int)reader._info._width == W && (int)reader._info._height == H, "agree.scanline_reader_dimensions");
        std::vector<gil::byte_t> row(reader._scanline_length);
        int yy = vp_param(15);
        reader.read(&row[0], yy);
        vp_assume(x < W);
        pix_t const* px = reinterpret_cast<pix_t const*>(&row[0]);
        vp_assert(px[x] == gil::view(R)(x, yy), "agree.scanline_row_equals_image_row");
    }
#elif MODE == 9
    // scanline reader with skipped rows: rows 0..yy-1 are skipped (what scanline_read_iterator does when it is incremented without being
    // dereferenced), row yy is read and holds the same pixels as row yy of the reference image
    {
        FILE* fp = (FILE*)vp_fopen_read();
        using device_t = typename gil::get_read_device<FILE*, tag_t>::type;
        using reader_t = gil::scanline_reader<device_t, tag_t>;
        device_t dev(fp);
        reader_t reader(dev, gil::image_read_settings<tag_t>());
        vp_assert((int)reader._info._width == W && (int)reader._info._height == H, "agree.scanline_reader_dimensions");
        std::vector<gil::byte_t> row(reader._scanline_length);
        int yy = vp_param(15);
        for (int k = 0; k < yy; ++k) reader.skip(&row[0], k);
        reader.read(&row[0], yy);
        vp_assume(x < W);
        // scanlines are delivered in the file's native pixel type (SPIX: bgr8 for 24-bit BMP / TARGA); pixels compare by colour
        SPIX const* px = reinterpret_cast<SPIX const*>(&row[0]);
        vp_assert(px[x] == gil::view(R)(x, yy), "agree.scanline_row_after_skip_equals_image_row");
    }
#elif MODE == 10
    // reading into a run-time typed image: the reader selects the alternative of the file's native pixel type and fills it with the same pixels
    {
        using any_t = gil::any_image<gil::gray8_image_t, gil::rgb8_image_t, gil::rgba8_image_t>;
        any_t A;
        { FILE* fp = (FILE*)vp_fopen_read(); gil::read_image(fp, A, tag_t()); }
        vp_assert(A.dimensions() == R.dimensions(), "agree.any_image_dimensions");
        using nat_t = gil::image<pix_t, false, std::allocator<unsigned char>>;
        nat_t const* I = boost::variant2::get_if<nat_t>(&A);
        vp_assert(I != nullptr, "agree.any_image_holds_native_type");
        if (I) {
            vp_assume(x < W && y < H);
            vp_assert(gil::const_view(*I)(x, y) == gil::view(R)(x, y), "agree.any_image_pixels");
        }
    }
#elif MODE == 11
    // a destination view one row (vp_param(18) == 0) or one column (== 1) smaller than the requested sub-rectangle is rejected with an
    // exception and nothing is written: not inside the view, not around it (the view lies inside a larger image filled with a background)
    {
        int x0 = vp_param(14), y0 = vp_param(15), dx = vp_param(16), dy = vp_param(17);
        int vw = vp_param(18) == 1 ? dx - 1 : dx, vh = vp_param(18) == 0 ? dy - 1 : dy;
        img_t D(W + 2, H + 2);
        pix_t bg; vp_fill(&bg, sizeof bg);
        gil::fill_pixels(gil::view(D), bg);
        bool threw = false;
        try { FILE* fp = (FILE*)vp_fopen_read();
              gil::read_view(fp, gil::subimage_view(gil::view(D), 1, 1, vw, vh), gil::image_read_settings<tag_t>(gil::point_t(x0, y0), gil::point_t(dx, dy))); }
        catch (std::ios_base::failure const&) { threw = true; }
        vp_assert(threw, "agree.too_small_view_for_sub_rectangle_rejected");
        int gx = vp_range(0, 9); int gy = vp_range(0, 5); vp_assume(gx < W + 2 && gy < H + 2);
        vp_assert(gil::view(D)(gx, gy) == bg, "agree.rejected_sub_rectangle_read_writes_nothing");
    }
#elif MODE == 6
    img_t D(W, H);
    pix_t bg; vp_fill(&bg, sizeof bg);
    gil::fill_pixels(gil::view(D), bg);
    bool threw = false;
    try { FILE* fp = (FILE*)vp_fopen_read(); gil::read_view(fp, gil::subimage_view(gil::view(D), 0, 0, W - 1, H), tag_t()); }
    catch (std::ios_base::failure const&) { threw = true; }
    vp_assert(threw, "agree.too_small_view_rejected");
    vp_assume(x < W && y < H);
    vp_assert(gil::view(D)(x, y) == bg, "agree.rejected_read_leaves_destination_untouched");
#endif
}
