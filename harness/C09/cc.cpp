// C09: default colour conversion between the core colour spaces (gray, rgb, rgba, cmyk), any layout, channel depths 8 / 16 / 32f.
// Shape parameters (compile time): SRC_P, DST_P pixel value types; SRC_CS, DST_CS colour-space codes (0 gray, 1 rgb, 2 rgba, 3 cmyk).
// Run time (vp_param): sources may be stratified: bit k of vp_param(0) set => the value (8-bit), the upper byte (16-bit) resp. the
// sign+exponent field (float) of semantic source channel k is the concrete value vp_param(1+k), the remaining bits stay symbolic.
// Bit k of vp_param(6) set => semantic source channel k is entirely the concrete value vp_param(1+k) (float: its bit pattern).
// vp_param(5) selects one assertion / one pixel position / one destination channel where an entry point says so.
// Semantic channel order used by the oracle: gray (v) / rgb (r,g,b) / rgba (r,g,b,a) / cmyk (c,m,y,k), read with semantic_at_c<K>.
#include <boost/gil.hpp>
#include "vp.hpp"
namespace gil = boost::gil;
using i128 = __int128;
#define CS_GRAY 0
#define CS_RGB 1
#define CS_RGBA 2
#define CS_CMYK 3
#ifndef VIEW_PLANAR
#define VIEW_PLANAR 0
#endif
using SP = SRC_P; using DP = DST_P;
using SC = gil::channel_type<SP>::type; using DC = gil::channel_type<DP>::type;
constexpr int SN = gil::num_channels<SP>::value, DN = gil::num_channels<DP>::value;

// ------------------------------------------------------------------------------------------------ channels
template <class C, class = void> struct chan;
template <class C> struct chan<C, typename std::enable_if<std::is_integral<C>::value>::type> {
    static constexpr bool integral = true;
    static C sym(int k) {
        if (sizeof(C) == 1) { if ((vp_param(0) >> k) & 1) return (C)vp_param(1 + k); return (C)vp_nondet_u8(); }
        if ((vp_param(6) >> k) & 1) return (C)vp_param(1 + k);
        if ((vp_param(0) >> k) & 1) { unsigned lo = vp_nondet_u8(); return (C)(((unsigned)vp_param(1 + k) << 8) | lo); }
        return (C)vp_nondet_u16();
    }
    static i128 num(C x) { return (i128)x; }
    static i128 hi() { return (i128)std::numeric_limits<C>::max(); }
    static bool in_range(C x) { return x >= gil::channel_traits<C>::min_value() && x <= gil::channel_traits<C>::max_value(); }
    static bool eq(C a, C b) { return a == b; }
    static bool le(C a, C b) { return a <= b; }
    static C succ(C x) { vp_assume(x < std::numeric_limits<C>::max()); return (C)(x + 1); }
    // |a-b| <= one 8-bit level of this channel type
    static bool within_level8(C a, C b) { long d = (long)a - (long)b; if (d < 0) d = -d; return d * 255 <= (long)hi(); }
};
template <> struct chan<gil::float32_t, void> {
    using C = gil::float32_t;
    static constexpr bool integral = false;
    static C sym(int k) {
        float f;
        if ((vp_param(6) >> k) & 1) { unsigned bits = (unsigned)vp_param(1 + k); __builtin_memcpy(&f, &bits, 4); }
        else if ((vp_param(0) >> k) & 1) { unsigned m = vp_nondet_u32(); unsigned bits = ((unsigned)vp_param(1 + k) << 23) | (m & 0x7FFFFFu); __builtin_memcpy(&f, &bits, 4); }
        else f = vp_nondet_float();
        vp_assume(f >= 0.0f && f <= 1.0f); return C(f);
    }
    static bool in_range(C x) { float f = x; return f >= 0.0f && f <= 1.0f; }
    static bool eq(C a, C b) { return (float)a == (float)b; }
    static bool le(C a, C b) { return (float)a <= (float)b; }
    // successor of a non-negative float = next bit pattern
    static C succ(C x) { float f = x; unsigned b; __builtin_memcpy(&b, &f, 4); vp_assume(b < 0x80000000u); b += 1; float g; __builtin_memcpy(&g, &b, 4); vp_assume(g <= 1.0f); return C(g); }
    static bool within_level8(C a, C b) { double d = (double)(float)a - (double)(float)b; if (d < 0) d = -d; return d * 255.0 <= 1.0; }
};
using scs = chan<SC>; using dcs = chan<DC>;
template <class C> static C cmin() { return gil::channel_traits<C>::min_value(); }
template <class C> static C cmax() { return gil::channel_traits<C>::max_value(); }

// ------------------------------------------------------------------------------------------------ pixels
// symbolic pixel: semantic channel 0 first, one nondet call per statement
template <class P, int K> struct filler { static void go(P& p) { filler<P, K - 1>::go(p); gil::semantic_at_c<K - 1>(p) = chan<typename gil::channel_type<P>::type>::sym(K - 1); } };
template <class P> struct filler<P, 0> { static void go(P&) {} };
template <class P> static P sym_px() { P p; filler<P, gil::num_channels<P>::value>::go(p); return p; }
template <class P, int K> struct pxops {
    using C = typename gil::channel_type<P>::type;
    static bool eq(P const& a, P const& b) { return pxops<P, K - 1>::eq(a, b) && chan<C>::eq(gil::semantic_at_c<K - 1>(a), gil::semantic_at_c<K - 1>(b)); }
    static bool in_range(P const& a) { return pxops<P, K - 1>::in_range(a) && chan<C>::in_range(gil::semantic_at_c<K - 1>(a)); }
};
template <class P> struct pxops<P, 0> { static bool eq(P const&, P const&) { return true; } static bool in_range(P const&) { return true; } };
template <class P> static bool px_eq(P const& a, P const& b) { return pxops<P, gil::num_channels<P>::value>::eq(a, b); }
template <class P> static bool px_in_range(P const& a) { return pxops<P, gil::num_channels<P>::value>::in_range(a); }

// the function under test
template <class D, class S> static D conv_to(S const& s) { D d; gil::color_convert(s, d); return d; }
static DP conv(SP const& s) { return conv_to<DP>(s); }

// black / white of a colour space.  cmyk: a colour is black iff its rendering 1-min(1,c(1-k)+k) is 0 in every channel, i.e. iff
// k == max or c == m == y == max; it is white iff c == m == y == k == min.  The canonical black (0,0,0,max) is used as source.
template <int CS, class P> struct csx;
template <class P> struct csx<CS_RGB, P> {
    using C = typename gil::channel_type<P>::type;
    static P mk(C r, C g, C b) { P p; gil::semantic_at_c<0>(p) = r; gil::semantic_at_c<1>(p) = g; gil::semantic_at_c<2>(p) = b; return p; }
    static P black() { return mk(cmin<C>(), cmin<C>(), cmin<C>()); }
    static P white() { return mk(cmax<C>(), cmax<C>(), cmax<C>()); }
    static bool all3(P const& p, C v) { return chan<C>::eq(gil::semantic_at_c<0>(p), v) && chan<C>::eq(gil::semantic_at_c<1>(p), v) && chan<C>::eq(gil::semantic_at_c<2>(p), v); }
    static bool is_black(P const& p) { return all3(p, cmin<C>()); }
    static bool is_white(P const& p) { return all3(p, cmax<C>()); }
};
template <class P> struct csx<CS_RGBA, P> {
    using C = typename gil::channel_type<P>::type;
    static P mk(C r, C g, C b, C a) { P p; gil::semantic_at_c<0>(p) = r; gil::semantic_at_c<1>(p) = g; gil::semantic_at_c<2>(p) = b; gil::semantic_at_c<3>(p) = a; return p; }
    static P black() { return mk(cmin<C>(), cmin<C>(), cmin<C>(), cmax<C>()); }
    static P white() { return mk(cmax<C>(), cmax<C>(), cmax<C>(), cmax<C>()); }
    static bool is_black(P const& p) { return csx<CS_RGB, P>::all3(p, cmin<C>()) && chan<C>::eq(gil::semantic_at_c<3>(p), cmax<C>()); }
    static bool is_white(P const& p) { return csx<CS_RGB, P>::all3(p, cmax<C>()) && chan<C>::eq(gil::semantic_at_c<3>(p), cmax<C>()); }
};
template <class P> struct csx<CS_CMYK, P> {
    using C = typename gil::channel_type<P>::type;
    static P mk(C c, C m, C y, C k) { P p; gil::semantic_at_c<0>(p) = c; gil::semantic_at_c<1>(p) = m; gil::semantic_at_c<2>(p) = y; gil::semantic_at_c<3>(p) = k; return p; }
    static P black() { return mk(cmin<C>(), cmin<C>(), cmin<C>(), cmax<C>()); }
    static P white() { return mk(cmin<C>(), cmin<C>(), cmin<C>(), cmin<C>()); }
    static bool is_black(P const& p) { return chan<C>::eq(gil::semantic_at_c<3>(p), cmax<C>()) || csx<CS_RGB, P>::all3(p, cmax<C>()); }
    static bool is_white(P const& p) { return csx<CS_RGB, P>::all3(p, cmin<C>()) && chan<C>::eq(gil::semantic_at_c<3>(p), cmin<C>()); }
};

extern "C" {
// (1) every channel of the result lies in its range; the conversion itself has no undefined step (ub.* obligations of the translator)
void h_range(void) {
    SP s = sym_px<SP>();
    DP d = conv(s);
    vp_assert(px_in_range(d), "cc.in_range");
}

#if SRC_CS == DST_CS
// (8) same colour space: per-channel channel_convert, channels paired by colour
extern "C++" {
template <int K> struct same_chk { static bool go(SP const& s, DP const& d) { return same_chk<K - 1>::go(s, d) && dcs::eq(gil::semantic_at_c<K - 1>(d), gil::channel_convert<DC>(gil::semantic_at_c<K - 1>(s))); } };
template <> struct same_chk<0> { static bool go(SP const&, DP const&) { return true; } };
}
void h_same(void) {
    SP s = sym_px<SP>();
    DP d = conv(s);
    vp_assert(same_chk<SN>::go(s, d), "cc.same_space_is_channel_convert");
}
#endif

#if SRC_CS != CS_GRAY && DST_CS != CS_GRAY
// (2) black -> black, white -> white between rgb, opaque rgba and cmyk
void h_bw(void) {
    DP b = conv(csx<SRC_CS, SP>::black());
    vp_assert((csx<DST_CS, DP>::is_black(b)), "cc.black_to_black");
    DP w = conv(csx<SRC_CS, SP>::white());
    vp_assert((csx<DST_CS, DP>::is_white(w)), "cc.white_to_white");
}
#if SRC_CS == CS_CMYK
// every cmyk colour with k == max, and (max,max,max,k) for every k, is black
void h_bw_rich(void) {
    SC c = scs::sym(0); SC m = scs::sym(1); SC y = scs::sym(2); SC k = scs::sym(3);
    DP b1 = conv(csx<CS_CMYK, SP>::mk(c, m, y, cmax<SC>()));
    vp_assert((csx<DST_CS, DP>::is_black(b1)), "cc.cmyk_full_key_is_black");
    DP b2 = conv(csx<CS_CMYK, SP>::mk(cmax<SC>(), cmax<SC>(), cmax<SC>(), k));
    vp_assert((csx<DST_CS, DP>::is_black(b2)), "cc.cmyk_full_cmy_is_black");
}
#endif
#endif

#if SRC_CS == CS_RGB && DST_CS == CS_GRAY
// (3a) rgb (v,v,v) -> gray v (as channel_convert<gray channel>(v)); claimed for 8-bit sources
void h_gray_diag(void) {
    SC v = scs::sym(0);
    DP d = conv(csx<CS_RGB, SP>::mk(v, v, v));
    vp_assert(dcs::eq(gil::semantic_at_c<0>(d), gil::channel_convert<DC>(v)), "cc.rgb_vvv_to_gray_v");
}
// (4a) monotone in each channel: successor form f(x) <= f(x with one channel + 1 step); equivalent by a chain argument
void h_lum_mono(void) {
    SC r = scs::sym(0); SC g = scs::sym(1); SC b = scs::sym(2);
    DC y0 = gil::semantic_at_c<0>(conv(csx<CS_RGB, SP>::mk(r, g, b)));
    int which = vp_param(5);
    if (which == 0) { SC r1 = scs::succ(r); vp_assert(dcs::le(y0, gil::semantic_at_c<0>(conv(csx<CS_RGB, SP>::mk(r1, g, b)))), "cc.lum_monotone_red"); }
    if (which == 1) { SC g1 = scs::succ(g); vp_assert(dcs::le(y0, gil::semantic_at_c<0>(conv(csx<CS_RGB, SP>::mk(r, g1, b)))), "cc.lum_monotone_green"); }
    if (which == 2) { SC b1 = scs::succ(b); vp_assert(dcs::le(y0, gil::semantic_at_c<0>(conv(csx<CS_RGB, SP>::mk(r, g, b1)))), "cc.lum_monotone_blue"); }
}
// (4b) within one unit of 0.30r+0.59g+0.11b.  The unit is one level of the coarser of the two channel types, i.e. with ms, md the
// channel maxima, T = 30r+59g+11b and y the gray result the claim is   |100*ms*y - md*T| <= 100*max(ms,md).
// 8-bit sources (fixed-point path): the direct inequality is a 24-bit linear-arithmetic cancellation that no SAT back end decided in
// 200 s, so it is proved in two steps.  With N = 4915r+9667g+1802b (the library's weights over 16384):
//   A (solver, all 2^24 pixels):  |16384*ms*y - md*N| <= (16384-113)*max(ms,md)
//   B (static_assert, constants):  |100*N - 16384*T| = |-20r + 44g - 24b| <= 255*44 = 11220 <= 11300
//   100*A + md*B  =>  16384*|100*ms*y - md*T| <= 16384*100*max(ms,md), which is the claim.
// A is 0.7 % tighter than the claim itself; nothing else about the implementation is assumed.
// other integral sources / float (generic float path, thorough tier): the claim directly, in exact 64-bit integers resp. in double
// (float -> float: tolerance 2^-20, a few float32 ulps of the weighted sum).
extern "C++" {
constexpr long long LW_R = 4915, LW_G = 9667, LW_B = 1802, LW_DEN = 16384, LW_SLACK = 113;
// 100*N - 16384*T = dr*r + dg*g + db*b with dr = -20, dg = +44, db = -24; over r,g,b in 0..255 its maximum is 255 * (sum of the positive
// coefficients) and its minimum -255 * (sum of the negative ones)
constexpr long long LD_R = 100 * LW_R - 30 * LW_DEN, LD_G = 100 * LW_G - 59 * LW_DEN, LD_B = 100 * LW_B - 11 * LW_DEN;
constexpr long long gcd_c(long long a, long long b) { return b == 0 ? a : gcd_c(b, a % b); }
constexpr long long pos_c(long long v) { return v > 0 ? v : 0; }
static_assert(255 * (pos_c(LD_R) + pos_c(LD_G) + pos_c(LD_B)) <= 100 * LW_SLACK && 255 * (pos_c(-LD_R) + pos_c(-LD_G) + pos_c(-LD_B)) <= 100 * LW_SLACK, "step B of the luminance bound");
template <class S_, class D_> static typename std::enable_if<chan<S_>::integral && chan<D_>::integral && sizeof(S_) == 1, bool>::type lum_ok(S_ r, S_ g, S_ b, D_ y) {
    // ms, md divided by their gcd (255 -> 1 | 255, 65535 -> 1, 257): the same inequality with smaller constants
    constexpr long long ms0 = (long long)std::numeric_limits<S_>::max(), md0 = (long long)std::numeric_limits<D_>::max();
    constexpr long long gc = gcd_c(ms0, md0), ms = ms0 / gc, md = md0 / gc;
    // N is written exactly as the library writes it (32-bit unsigned) so that the compiler shares the common subexpression
    std::uint32_t n32 = std::uint32_t(r) * 4915 + std::uint32_t(g) * 9667 + std::uint32_t(b) * 1802;   // < 2^22
    volatile std::uint32_t n_mem = n32;   // barrier: keeps the compiler from re-associating N into the comparison (a solver-hostile form)
    long long n = (long long)n_mem;
    long long e = LW_DEN * ms * (long long)y - md * n;
    long long tol = (LW_DEN - LW_SLACK) * (ms > md ? ms : md);
    return e <= tol && -e <= tol;
}
template <class S_, class D_> static typename std::enable_if<chan<S_>::integral && chan<D_>::integral && sizeof(S_) != 1, bool>::type lum_ok(S_ r, S_ g, S_ b, D_ y) {
    // channel maxima are <= 65535, so every term is below 2^40: exact in 64-bit integers
    long long ms = (long long)chan<S_>::hi(), md = (long long)chan<D_>::hi();
    long long e = 100 * ms * (long long)y - md * (30 * (long long)r + 59 * (long long)g + 11 * (long long)b);
    long long tol = 100 * (ms > md ? ms : md);
    return e <= tol && -e <= tol;
}
template <class S_, class D_> static typename std::enable_if<chan<S_>::integral && !chan<D_>::integral, bool>::type lum_ok(S_ r, S_ g, S_ b, D_ y) {
    double ms = (double)chan<S_>::hi();
    if (sizeof(S_) == 1) {   // steps A/B as above with md = 1
        double n = (double)(LW_R * (long long)r + LW_G * (long long)g + LW_B * (long long)b);
        double e = (double)LW_DEN * ms * (double)(float)y - n, tol = (double)(LW_DEN - LW_SLACK);   // unit = one source level
        return e <= tol && -e <= tol;
    }
    double e = 100.0 * ms * (double)(float)y - (30.0 * (double)r + 59.0 * (double)g + 11.0 * (double)b);
    return e <= 100.0 && -e <= 100.0;   // |y - T/(100 ms)| <= 1/ms
}
template <class S_, class D_> static typename std::enable_if<!chan<S_>::integral && chan<D_>::integral, bool>::type lum_ok(S_ r, S_ g, S_ b, D_ y) {
    double md = (double)chan<D_>::hi();
    double e = 100.0 * (double)y - md * (30.0 * (double)(float)r + 59.0 * (double)(float)g + 11.0 * (double)(float)b);
    return e <= 100.0 && -e <= 100.0;
}
template <class S_, class D_> static typename std::enable_if<!chan<S_>::integral && !chan<D_>::integral, bool>::type lum_ok(S_ r, S_ g, S_ b, D_ y) {
    double e = 100.0 * (double)(float)y - (30.0 * (double)(float)r + 59.0 * (double)(float)g + 11.0 * (double)(float)b);
    double tol = 100.0 / 1048576.0;
    return e <= tol && -e <= tol;
}
}
void h_lum_unit(void) {
    SC r = scs::sym(0); SC g = scs::sym(1); SC b = scs::sym(2);
    DC y = gil::semantic_at_c<0>(conv(csx<CS_RGB, SP>::mk(r, g, b)));
    if (sizeof(SC) == 1 && dcs::integral && sizeof(DC) > 1) {
        // 8-bit source, deeper integral gray: the unit is the 8-bit level.  Proved as  y == channel_convert<DC>(y8)  with y8 the gray8 result of the
        // same pixel, and y8 within one unit (steps A/B); channel_convert is an exact rescaling of the 8-bit levels (C06).  The direct
        // inequality on y = 257*y8 is a multiplier cancellation that had no verdict in 300 s.
        std::uint8_t y8 = gil::semantic_at_c<0>(conv_to<gil::gray8_pixel_t>(csx<CS_RGB, SP>::mk(r, g, b)));
        vp_assert(dcs::eq(y, gil::channel_convert<DC>(y8)) && lum_ok(r, g, b, y8), "cc.lum_within_one_unit");
    } else
    vp_assert(lum_ok(r, g, b, y), "cc.lum_within_one_unit");
}
#endif

#if SRC_CS == CS_GRAY && (DST_CS == CS_RGB || DST_CS == CS_RGBA)
// (3b) gray v -> rgb (v,v,v)
void h_gray_to_rgb(void) {
    SP s = sym_px<SP>();
    DP d = conv(s);
    vp_assert((csx<CS_RGB, DP>::all3(d, gil::channel_convert<DC>(gil::semantic_at_c<0>(s)))), "cc.gray_v_to_rgb_vvv");
}
#endif

#if SRC_CS == CS_RGB && DST_CS == CS_CMYK
// (5) rgb -> cmyk -> rgb returns the original within one 8-bit level per channel
void h_cmyk_round(void) {
    SP s = sym_px<SP>();
    DP d = conv(s);
    SP z = conv_to<SP>(d);
    int which = vp_param(5);
    if (which == 0 || which == 3) vp_assert(scs::within_level8(gil::semantic_at_c<0>(s), gil::semantic_at_c<0>(z)), "cc.cmyk_round_trip_red");
    if (which == 1 || which == 3) vp_assert(scs::within_level8(gil::semantic_at_c<1>(s), gil::semantic_at_c<1>(z)), "cc.cmyk_round_trip_green");
    if (which == 2 || which == 3) vp_assert(scs::within_level8(gil::semantic_at_c<2>(s), gil::semantic_at_c<2>(z)), "cc.cmyk_round_trip_blue");
}
#endif

#if SRC_CS == CS_RGBA && DST_CS != CS_RGBA
// (6) converting from rgba == converting the alpha-premultiplied rgb pixel (rgb_layout, source channel type)
void h_premult(void) {
    SP s = sym_px<SP>();
    DP d = conv(s);
    SC a = gil::semantic_at_c<3>(s);
    using RGB = gil::pixel<SC, gil::rgb_layout_t>;
    RGB pm = csx<CS_RGB, RGB>::mk(gil::channel_multiply(gil::semantic_at_c<0>(s), a), gil::channel_multiply(gil::semantic_at_c<1>(s), a), gil::channel_multiply(gil::semantic_at_c<2>(s), a));
    DP e = conv_to<DP>(pm);
    int which = vp_param(5);   // 0: whole pixel; 1..DN: destination channel which-1 only (rgba -> cmyk: one double-path channel per query)
    bool ok = which == 0 ? px_eq(d, e) : dcs::eq(d[(std::size_t)(which - 1)], e[(std::size_t)(which - 1)]);
    vp_assert(ok, "cc.from_rgba_is_premultiplied_rgb");   // one call site: two calls in an if/else are merged by the compiler and lose their label
}
#endif

#if DST_CS == CS_RGBA
// (7) to rgba: alpha == max, or the converted source alpha; the colour channels are those of the conversion to rgb
void h_to_rgba(void) {
    SP s = sym_px<SP>();
    DP d = conv(s);
#if SRC_CS == CS_RGBA
    vp_assert(dcs::eq(gil::semantic_at_c<3>(d), gil::channel_convert<DC>(gil::semantic_at_c<3>(s))), "cc.to_rgba_alpha_carried");
#else
    vp_assert(dcs::eq(gil::semantic_at_c<3>(d), cmax<DC>()), "cc.to_rgba_alpha_is_max");
    using RGB = gil::pixel<DC, gil::rgb_layout_t>;
    RGB e = conv_to<RGB>(s);
    vp_assert(dcs::eq(gil::semantic_at_c<0>(d), gil::semantic_at_c<0>(e)) && dcs::eq(gil::semantic_at_c<1>(d), gil::semantic_at_c<1>(e)) && dcs::eq(gil::semantic_at_c<2>(d), gil::semantic_at_c<2>(e)), "cc.to_rgba_colour_is_rgb_conversion");
#endif
}
#endif

// (9) color_converted_view(v)(x,y) and copy_and_convert_pixels(v, dst)(x,y) == color_convert(v(x,y)) on a 2x2 view with symbolic contents
struct src2x2 {
#if VIEW_PLANAR
    SC pl[SN][4];
    void fill() { for (int i = 0; i < 4; ++i) { SP p = sym_px<SP>(); put(i, p); } }
#if SRC_CS == CS_RGB
    using view_t = gil::type_from_x_iterator<gil::planar_pixel_iterator<SC*, gil::rgb_t>>::view_t;
    void put(int i, SP const& p) { pl[0][i] = gil::semantic_at_c<0>(p); pl[1][i] = gil::semantic_at_c<1>(p); pl[2][i] = gil::semantic_at_c<2>(p); }
    view_t view() { return gil::planar_rgb_view(2, 2, pl[0], pl[1], pl[2], 2 * sizeof(SC)); }
#elif SRC_CS == CS_RGBA
    using view_t = gil::type_from_x_iterator<gil::planar_pixel_iterator<SC*, gil::rgba_t>>::view_t;
    void put(int i, SP const& p) { pl[0][i] = gil::semantic_at_c<0>(p); pl[1][i] = gil::semantic_at_c<1>(p); pl[2][i] = gil::semantic_at_c<2>(p); pl[3][i] = gil::semantic_at_c<3>(p); }
    view_t view() { return gil::planar_rgba_view(2, 2, pl[0], pl[1], pl[2], pl[3], 2 * sizeof(SC)); }
#else
    using view_t = gil::type_from_x_iterator<gil::planar_pixel_iterator<SC*, gil::cmyk_t>>::view_t;
    void put(int i, SP const& p) { pl[0][i] = gil::semantic_at_c<0>(p); pl[1][i] = gil::semantic_at_c<1>(p); pl[2][i] = gil::semantic_at_c<2>(p); pl[3][i] = gil::semantic_at_c<3>(p); }
    view_t view() { return gil::planar_cmyk_view(2, 2, pl[0], pl[1], pl[2], pl[3], 2 * sizeof(SC)); }
#endif
#else
    SP px[4];
    using view_t = gil::type_from_x_iterator<SP*>::view_t;
    void fill() { for (int i = 0; i < 4; ++i) px[i] = sym_px<SP>(); }
    view_t view() { return gil::interleaved_view(2, 2, px, 2 * sizeof(SP)); }
#endif
};
void h_ccv(void) {
    src2x2 b; b.fill();
    auto v = b.view();
    auto cv = gil::color_converted_view<DP>(v);
    vp_assert(cv.width() == 2 && cv.height() == 2, "cc.converted_view_dims");
    int only = vp_param(5);   // 0: all four pixels in one query; 1..4: pixel only-1 (concrete position per query)
    for (int y = 0; y < 2; ++y) for (int x = 0; x < 2; ++x) {
        if (only != 0 && only - 1 != y * 2 + x) continue;
        SP s = v(x, y);
        DP got = cv(x, y);
        vp_assert(px_eq(got, conv(s)), "cc.converted_view_is_color_convert");
    }
}
void h_ccp(void) {
    src2x2 b; b.fill();
    auto v = b.view();
    DP out[4];
    auto dv = gil::interleaved_view(2, 2, out, 2 * sizeof(DP));
    gil::copy_and_convert_pixels(v, dv);
    int only = vp_param(5);
    for (int y = 0; y < 2; ++y) for (int x = 0; x < 2; ++x) {
        if (only != 0 && only - 1 != y * 2 + x) continue;
        SP s = v(x, y);
        DP got = out[y * 2 + x];
        vp_assert(px_eq(got, conv(s)), "cc.copy_and_convert_is_color_convert");
    }
}
}
