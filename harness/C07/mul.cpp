// C07: channel_multiply / channel_invert scaled-arithmetic laws.
// Shape parameters: CH_T (channel model); vp_param(0)=1 selects stratified mode for 16-bit monotonicity in which
// vp_param(1) is the concrete upper byte of the first operand.
#include <boost/gil.hpp>
#include "vp.hpp"
namespace gil = boost::gil;
using i128 = __int128;
using C = CH_T;
#if IS_FLOAT
static C sym() { float f = vp_nondet_float(); vp_assume(f >= 0.0f && f <= 1.0f); return C(f); }
static float val(C x) { return (float)x; }
// stratified float: sign+exponent (upper 9 bits) concrete per query, mantissa symbolic
static C symf(int which) { if (vp_param(0) & which) { unsigned m = vp_nondet_u32(); unsigned bits = ((unsigned)vp_param(which) << 23) | (m & (which == 2 ? 0x7F8000u : 0x7FFFFFu));   /* b: top 8 mantissa bits */ float f; __builtin_memcpy(&f, &bits, 4); vp_assume(f >= 0.0f && f <= 1.0f); return C(f); } return sym(); }
#elif IS_PACKED
static C sym() { unsigned v = vp_nondet_u16(); vp_assume(v <= (unsigned)((1u << NBITS) - 1)); return C((typename C::integer_t)v); }
static C sym_strat() { return sym(); }
static C sym_strat_b() { return sym(); }
static i128 num(C x) { return (i128)(typename C::integer_t)x; }
static i128 lo() { return 0; }
static i128 hi() { return (i128)((1u << NBITS) - 1); }
#else
static C sym() { if (sizeof(C) == 1) return (C)vp_nondet_u8(); if (sizeof(C) == 2) return (C)vp_nondet_u16(); return (C)vp_nondet_u32(); }
static C sym_strat() { if (vp_param(0) & 1) { unsigned l = vp_nondet_u8(); return (C)(((unsigned)vp_param(1) << 8) | l); } return sym(); }
static C sym_strat_b() { if (vp_param(0) & 2) { unsigned l = vp_nondet_u8(); return (C)(((unsigned)vp_param(2) << 8) | l); } return sym(); }
static i128 num(C x) { return (i128)x; }
static i128 lo() { return (i128)std::numeric_limits<C>::min(); }
static i128 hi() { return (i128)std::numeric_limits<C>::max(); }
#endif
#if IS_PACKED
static C mk(long long v) { return C((typename C::integer_t)v); }
#elif !IS_FLOAT
static C mk(long long v) { return (C)v; }
#endif
static C cmin() { return gil::channel_traits<C>::min_value(); }
static C cmax() { return gil::channel_traits<C>::max_value(); }
extern "C" {
#if IS_FLOAT
void h_mul_unit(void) { C a = sym(), b = sym(); C m = gil::channel_multiply(a, b); vp_assert(val(m) == val(a) * val(b), "mul.float_product"); }
void h_mul_comm(void) { C a = sym(), b = sym(); vp_assert(val(gil::channel_multiply(a, b)) == val(gil::channel_multiply(b, a)), "mul.commutative"); }
// monotone <=> f(a) <= f(succ(a)) for every a below the maximum (chain argument over the finite ordered value set);
// for non-negative floats the successor is the next bit pattern
void h_mul_mono(void) {
    C a = symf(1); C b = symf(2);
    float af = val(a); unsigned bits; __builtin_memcpy(&bits, &af, 4); vp_assume(bits < 0x80000000u); bits += 1; float a2f; __builtin_memcpy(&a2f, &bits, 4);
    vp_assume(a2f <= 1.0f);
    C a2(a2f);
    vp_assert(val(gil::channel_multiply(a, b)) <= val(gil::channel_multiply(a2, b)), "mul.monotone_first");
    vp_assert(val(gil::channel_multiply(b, a)) <= val(gil::channel_multiply(b, a2)), "mul.monotone_second");
}
void h_mul_ident(void) { C a = sym(); vp_assert(val(gil::channel_multiply(a, cmax())) == val(a), "mul.max_is_identity"); vp_assert(val(gil::channel_multiply(a, cmin())) == val(cmin()), "mul.min_is_annihilator"); }
void h_mul_range(void) { C a = sym(), b = sym(); C m = gil::channel_multiply(a, b); vp_assert(val(m) >= 0.0f && val(m) <= 1.0f, "mul.in_range"); }
void h_inv(void) { C x = sym(); C y = gil::channel_invert(x); vp_assert(val(y) == 1.0f - val(x) + 0.0f, "inv.formula"); vp_assert(val(y) >= 0.0f && val(y) <= 1.0f, "inv.in_range"); }
#else
void h_mul_unit(void) {
    C a = sym_strat(); C b = sym_strat_b(); C m = gil::channel_multiply(a, b);
    i128 r = hi() - lo();
    i128 e = (num(m) - lo()) * r - (num(a) - lo()) * (num(b) - lo());
    vp_assert(e < r && -e < r, "mul.within_one_unit");
}
void h_mul_comm(void) { C a = sym(), b = sym(); vp_assert(num(gil::channel_multiply(a, b)) == num(gil::channel_multiply(b, a)), "mul.commutative"); }
// monotone <=> f(a) <= f(a+1) for every a below the maximum (chain argument over the finite ordered value set)
void h_mul_mono(void) {
    C a = sym_strat(); C b = sym_strat_b();
    vp_assume(num(a) < hi());
    C a2 = mk((long long)(num(a) + 1));
    vp_assert(num(gil::channel_multiply(a, b)) <= num(gil::channel_multiply(a2, b)), "mul.monotone_first");
    vp_assert(num(gil::channel_multiply(b, a)) <= num(gil::channel_multiply(b, a2)), "mul.monotone_second");
}
void h_mul_ident(void) {
    C a = sym();
    vp_assert(num(gil::channel_multiply(a, cmax())) == num(a), "mul.max_is_identity");
    vp_assert(num(gil::channel_multiply(cmax(), a)) == num(a), "mul.max_is_identity_left");
    vp_assert(num(gil::channel_multiply(a, cmin())) == num(cmin()), "mul.min_is_annihilator");
    vp_assert(num(gil::channel_multiply(cmin(), a)) == num(cmin()), "mul.min_is_annihilator_left");
}
void h_mul_range(void) { C a = sym(), b = sym(); C m = gil::channel_multiply(a, b); vp_assert(num(m) >= lo() && num(m) <= hi(), "mul.in_range"); }
void h_inv(void) {
    C x = sym(); C y = gil::channel_invert(x);
    vp_assert(num(y) == hi() - num(x) + lo(), "inv.formula");
    vp_assert(num(y) >= lo() && num(y) <= hi(), "inv.in_range");
    vp_assert(num(gil::channel_invert(y)) == num(x), "inv.involution");
}
#endif
}
