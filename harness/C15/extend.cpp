// C15: extend_row / extend_col / extend_boundary return the padded image their boundary policy describes:
//      n extra rows above and below (extend_row), n extra columns left and right (extend_col), both (extend_boundary); the centre
//      is the source; the new pixels are zero (extend_zero), the nearest edge pixel (extend_constant) or the caller's padding
//      around the source view (extend_padded).
// Compile-time shape: C15_SRC_PIX.  Run-time-constant shape (vp_param): 0,1 = width,height of the source view; 2 = n (extend count);
// 3 = boundary option (enum value); 4 = function (0 extend_row, 1 extend_col, 2 extend_boundary).
// Symbolic: every source pixel and, for extend_padded, every declared padding pixel.  The source view lives in an exact-size heap
// object (for extend_padded: larger by exactly the n rows / columns the function is documented to read), so a read outside the
// source (+ declared padding) is a failed proof obligation.  Every pixel of the result is compared.
#include <boost/gil.hpp>
#include "vp.hpp"
namespace gil = boost::gil;
#ifndef C15_SRC_PIX
#define C15_SRC_PIX gil::gray8_pixel_t
#endif
using src_pix = C15_SRC_PIX;
static constexpr int NCH = gil::num_channels<src_pix>::value;
enum { O_PADDED = 2, O_EXT_ZERO = 3, O_CONSTANT = 4 };
static_assert((int)gil::boundary_option::extend_padded == O_PADDED && (int)gil::boundary_option::extend_zero == O_EXT_ZERO && (int)gil::boundary_option::extend_constant == O_CONSTANT, "boundary_option enumerators");

template <class Pix> struct pbuf {
    unsigned char* raw = nullptr; Pix* base = nullptr; int bw = 0, bh = 0;
    using view_t = typename gil::type_from_x_iterator<Pix const*>::view_t;
    void alloc(int bw_, int bh_) { bw = bw_; bh = bh_; unsigned long n = (unsigned long)(bw * bh) * sizeof(Pix);
        if (n) { raw = (unsigned char*)vp_buf(n); base = (Pix*)raw; } else { raw = (unsigned char*)vp_buf(sizeof(Pix)); base = (Pix*)(raw + sizeof(Pix)); } }
    view_t full() const { return gil::interleaved_view(bw, bh, (Pix const*)base, (std::ptrdiff_t)(bw * (long)sizeof(Pix))); }
    view_t sub(int x0, int y0, int w, int h) const { return gil::subimage_view(full(), x0, y0, w, h); }
    void fill() { if (bw * bh) vp_fill(raw, (unsigned long)(bw * bh) * sizeof(Pix)); }
    ~pbuf() { if (raw) vp_buf_free(raw); }
};

extern "C" void h_extend(void) {
    int w = vp_param(0), h = vp_param(1), n = vp_param(2), opt = vp_param(3), fn = vp_param(4);
    int nx = fn == 0 ? 0 : n, ny = fn == 1 ? 0 : n;          // columns / rows added on each side
    int px = opt == O_PADDED ? nx : 0, py = opt == O_PADDED ? ny : 0;   // declared padding around the source view
    pbuf<src_pix> s; s.alloc(w + 2 * px, h + 2 * py); s.fill();
    auto sv = s.sub(px, py, w, h); auto full = s.full();
    gil::boundary_option o = (gil::boundary_option)opt;
    gil::image<src_pix> r = fn == 0 ? gil::extend_row(sv, (std::size_t)n, o) : fn == 1 ? gil::extend_col(sv, (std::size_t)n, o) : gil::extend_boundary(sv, (std::size_t)n, o);
    auto rv = gil::const_view(r);
    // a padded image without pixels: gil::image's constructor normalises a zero dimension to 0x0 (C10's business), so only emptiness is required
    if ((w + 2 * nx) * (h + 2 * ny) == 0) { vp_assert(rv.width() * rv.height() == 0, "extend.result_empty"); return; }
    bool dims_ok = rv.width() == w + 2 * nx && rv.height() == h + 2 * ny;
    vp_assert(dims_ok, "extend.result_dimensions");
    if (!dims_ok) return;
    for (int y = 0; y < h + 2 * ny; ++y) for (int x = 0; x < w + 2 * nx; ++x) {
        int sx = x - nx, sy = y - ny;                          // source coordinates of result pixel (x,y)
        bool in = sx >= 0 && sx < w && sy >= 0 && sy < h;
        for (int ch = 0; ch < NCH; ++ch) {
            long e;
            if (in) e = (long)sv(sx, sy)[ch];
            else if (opt == O_EXT_ZERO) e = 0;
            else if (opt == O_CONSTANT) { int cx = sx < 0 ? 0 : (sx >= w ? w - 1 : sx), cy = sy < 0 ? 0 : (sy >= h ? h - 1 : sy); e = (long)sv(cx, cy)[ch]; }
            else e = (long)full(px + sx, py + sy)[ch];
            if (in) vp_assert((long)rv(x, y)[ch] == e, "extend.centre_is_the_source");
            else vp_assert((long)rv(x, y)[ch] == e, "extend.border_follows_the_policy");
        }
    }
}
