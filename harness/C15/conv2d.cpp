// C15: detail::convolve_2d equals the zero-extended 2-D convolution sum
//      dst(x,y) = sum_{kx,ky} src(x - (kx - cx), y - (ky - cy)) * kernel(kx,ky),   src := 0 outside the image
// Compile-time shape: C15_SRC_PIX / C15_DST_PIX (source pixel type / float destination pixel type), C15_KER_T (tap type).
// Run-time-constant shape (vp_param): 0,1 = width,height; 2 = kernel size (square); 3,4 = centre x,y; 5,6 = output pixel under test
// (5 = -1: every output pixel); 7 = bit mask of the taps that are symbolic (the others are 0: impulse kernels; -1 = all);
// 8 = reference arithmetic (0: exact integer sum; 1 / 2: the same sum accumulated in float32, taps ascending / descending).
// Symbolic: every source pixel, the selected taps (integer-valued in [-4,4], so every product and partial sum is exact in float32),
// the sentinel the destination is pre-filled with.  Source and destination are exact-size heap objects.
// convolve_2d accumulates in float: chains of more than four float additions against the integer sum had no verdict in 300 s, so
// kernels of size 3 are checked with impulse kernels (one symbolic tap per query, every tap position) against the integer sum.
#include <boost/gil.hpp>
#include <boost/gil/image_processing/convolve.hpp>
#include "vp.hpp"
namespace gil = boost::gil;
#ifndef C15_SRC_PIX
#define C15_SRC_PIX gil::gray8_pixel_t
#endif
#ifndef C15_DST_PIX
#define C15_DST_PIX gil::gray32f_pixel_t
#endif
#ifndef C15_KER_T
#define C15_KER_T float
#endif
using src_pix = C15_SRC_PIX; using dst_pix = C15_DST_PIX; using ker_t = C15_KER_T;
static constexpr int NCH = gil::num_channels<src_pix>::value;
static constexpr int KMAX = 5;

template <class Pix> struct pbuf {
    unsigned char* raw = nullptr; Pix* base = nullptr; int bw = 0, bh = 0;
    using view_t = typename gil::type_from_x_iterator<Pix*>::view_t;
    void alloc(int bw_, int bh_) { bw = bw_; bh = bh_; unsigned long n = (unsigned long)(bw * bh) * sizeof(Pix);
        if (n) { raw = (unsigned char*)vp_buf(n); base = (Pix*)raw; } else { raw = (unsigned char*)vp_buf(sizeof(Pix)); base = (Pix*)(raw + sizeof(Pix)); } }
    view_t full() const { return gil::interleaved_view(bw, bh, base, (std::ptrdiff_t)(bw * (long)sizeof(Pix))); }
    void fill() { if (bw * bh) vp_fill(raw, (unsigned long)(bw * bh) * sizeof(Pix)); }
    ~pbuf() { if (raw) vp_buf_free(raw); }
};

extern "C" void h_conv2d(void) {
    int w = vp_param(0), h = vp_param(1), K = vp_param(2), cx = vp_param(3), cy = vp_param(4), ox = vp_param(5), oy = vp_param(6);
    int symmask = vp_param(7);                            // bit k set: tap k is symbolic; clear: tap k is 0 (impulse / sparse kernels); -1: every tap symbolic
    pbuf<src_pix> s; s.alloc(w, h); s.fill();
    pbuf<dst_pix> d; d.alloc(w, h);
    int taps[KMAX * KMAX]; ker_t ktaps[KMAX * KMAX];
    for (int k = 0; k < KMAX * KMAX; ++k) { taps[k] = 0; ktaps[k] = 0; }
    for (int k = 0; k < K * K; ++k) { if (!((symmask >> k) & 1)) continue; int t = vp_range(-4, 4); taps[k] = t; ktaps[k] = (ker_t)t; }
    int sent = vp_range(-1000000, 1000000);
    auto sv = s.full(); auto dv = d.full();
    for (int y = 0; y < h; ++y) for (int x = 0; x < w; ++x) for (int ch = 0; ch < NCH; ++ch) dv(x, y)[ch] = (float)sent;
    // kernel_2d(size, centre_y, centre_x) + element copy: the iterator constructor derives the size with a libm sqrt call (not modelled)
    gil::detail::kernel_2d<ker_t> ker((std::size_t)K, (std::size_t)cy, (std::size_t)cx);
    for (int k = 0; k < K * K; ++k) ker.begin()[k] = ktaps[k];
    vp_assert((int)ker.size() == K && (int)ker.center_x() == cx && (int)ker.center_y() == cy, "conv2d.kernel_shape");
    gil::detail::convolve_2d(sv, ker, dv);
    for (int y = 0; y < h; ++y) for (int x = 0; x < w; ++x) {
        if (ox >= 0 && (x != ox || y != oy)) continue;
        for (int ch = 0; ch < NCH; ++ch) {
            int mode = vp_param(8);
            if (mode == 0) {
                // exact integer reference
                long acc = 0;
                for (int ky = 0; ky < K; ++ky) for (int kx = 0; kx < K; ++kx) {
                    int sx = x - (kx - cx), sy = y - (ky - cy);
                    if (sx >= 0 && sx < w && sy >= 0 && sy < h) acc += (long)sv(sx, sy)[ch] * (long)taps[ky * K + kx];
                }
                vp_assert((float)dv(x, y)[ch] == (float)acc, "conv2d.output_equals_zero_extended_2d_sum");
            } else {
                // float32 reference: the same textbook sum accumulated in float (mode 1: taps in ascending order, mode 2: descending)
                float acc = 0.0f;
                for (int iy = 0; iy < K; ++iy) for (int ix = 0; ix < K; ++ix) {
                    int ky = mode == 1 ? iy : K - 1 - iy, kx = mode == 1 ? ix : K - 1 - ix;
                    int sx = x - (kx - cx), sy = y - (ky - cy);
                    if (sx >= 0 && sx < w && sy >= 0 && sy < h) acc += (float)(int)sv(sx, sy)[ch] * (float)ktaps[ky * K + kx];
                }
                vp_assert((float)dv(x, y)[ch] == acc, "conv2d.output_equals_zero_extended_2d_float_sum");
            }
        }
    }
}
