// C15: 1-D correlation / convolution along rows / columns with dynamic and fixed-size kernels equals the textbook sum
//      dst(i) = sum_k src(i + k - centre) * kernel(k)          (correlate)
//      dst(i) = sum_k src(i - (k - centre)) * kernel(k)        (convolve)
// under the boundary option's out-of-image rule.
// Compile-time shape: C15_AXIS (0 rows, 1 cols), C15_CONV (0 correlate, 1 convolve), C15_KFIX (0: kernel_1d, N: kernel_1d_fixed<.,N>),
//                     C15_SRC_PIX / C15_ACC_PIX (source pixel type / accumulator = destination pixel type), C15_KER_T (tap type).
// Run-time-constant shape (vp_param): 0,1 = width,height; 2 = kernel size; 3 = centre; 4 = boundary option (enum value);
//                     5,6 = output pixel under test (x,y); 5 = -1: every output pixel (concrete loop); 7 = bit mask of the symbolic taps
//                     (the others are 0; -1 = all; used by the float-accumulator queries: float sums of more than two non-zero
//                     terms against the exact integer sum had no verdict in 300 s).
// Symbolic: every source pixel (and, for extend_padded, every declared padding pixel), every kernel tap in [-4,4], the sentinel
// the destination is pre-filled with.
// Source and destination are exact-size heap objects: a read outside the source (+ declared padding) or a write outside the
// destination is a failed proof obligation.  For extend_padded the source view is a sub-view of a buffer that is larger by exactly
// the kernel's left/right extent along the filtered axis.
#include <boost/gil.hpp>
#include <boost/gil/image_processing/convolve.hpp>
#include "vp.hpp"
namespace gil = boost::gil;
#ifndef C15_AXIS
#define C15_AXIS 0
#endif
#ifndef C15_CONV
#define C15_CONV 0
#endif
#ifndef C15_KFIX
#define C15_KFIX 0
#endif
#ifndef C15_SRC_PIX
#define C15_SRC_PIX gil::gray8_pixel_t
#endif
#ifndef C15_ACC_PIX
#define C15_ACC_PIX gil::gray32s_pixel_t
#endif
#ifndef C15_KER_T
#define C15_KER_T int
#endif
using src_pix = C15_SRC_PIX; using acc_pix = C15_ACC_PIX; using ker_t = C15_KER_T;
using acc_ch = gil::channel_type<acc_pix>::type;
static constexpr int NCH = gil::num_channels<src_pix>::value;
static_assert(NCH == (int)gil::num_channels<acc_pix>::value, "channel counts");
static constexpr int KMAX = 7;
static constexpr bool ACC_FLOAT = !std::is_integral<acc_ch>::value;

// exact-size pixel buffer of bw x bh pixels (an empty buffer hands out the one-past-the-end pointer of a minimal object)
template <class Pix> struct pbuf {
    unsigned char* raw = nullptr; Pix* base = nullptr; int bw = 0, bh = 0;
    using view_t = typename gil::type_from_x_iterator<Pix*>::view_t;
    void alloc(int bw_, int bh_) { bw = bw_; bh = bh_; unsigned long n = (unsigned long)(bw * bh) * sizeof(Pix);
        if (n) { raw = (unsigned char*)vp_buf(n); base = (Pix*)raw; } else { raw = (unsigned char*)vp_buf(sizeof(Pix)); base = (Pix*)(raw + sizeof(Pix)); } }
    view_t full() const { return gil::interleaved_view(bw, bh, base, (std::ptrdiff_t)(bw * (long)sizeof(Pix))); }
    view_t sub(int x0, int y0, int w, int h) const { return gil::subimage_view(full(), x0, y0, w, h); }
    void fill() { if (bw * bh) vp_fill(raw, (unsigned long)(bw * bh) * sizeof(Pix)); }
    ~pbuf() { if (raw) vp_buf_free(raw); }
};
// channel value as an exact integer
template <class C> static long num(C v) { return (long)v; }
static long num(gil::float32_t v) { return (long)(float)v; }

enum { O_IGNORE = 0, O_ZERO = 1, O_PADDED = 2, O_EXT_ZERO = 3, O_CONSTANT = 4 };
static_assert((int)gil::boundary_option::output_ignore == O_IGNORE && (int)gil::boundary_option::output_zero == O_ZERO && (int)gil::boundary_option::extend_padded == O_PADDED &&
              (int)gil::boundary_option::extend_zero == O_EXT_ZERO && (int)gil::boundary_option::extend_constant == O_CONSTANT, "boundary_option enumerators");

struct setup {
    int w, h, K, c, opt, L, R;            // L / R: how far the window reaches before / behind the output position
    pbuf<src_pix> s; pbuf<acc_pix> d;
    int x0 = 0, y0 = 0;                    // origin of the source view in its buffer
    int taps[KMAX]; ker_t ktaps[KMAX];
    long sent;
    void init(bool conv) {
        w = vp_param(0); h = vp_param(1); K = vp_param(2); c = vp_param(3); opt = vp_param(4);
        L = conv ? K - 1 - c : c; R = conv ? c : K - 1 - c;
        if (opt == O_PADDED) { if (C15_AXIS == 0) { s.alloc(w + L + R, h); x0 = L; } else { s.alloc(w, h + L + R); y0 = L; } }
        else s.alloc(w, h);
        s.fill();
        d.alloc(w, h);
        for (int k = 0; k < KMAX; ++k) { taps[k] = 0; ktaps[k] = 0; }
        int symmask = vp_param(7);               // bit k set: tap k symbolic, clear: tap k is 0 (-1: every tap symbolic)
        for (int k = 0; k < K; ++k) { if (!((symmask >> k) & 1)) continue; int t = vp_range(-4, 4); taps[k] = t; ktaps[k] = (ker_t)t; }
        int sv = vp_range(-1000000, 1000000); sent = sv;
        prefill(d);
    }
    void prefill(pbuf<acc_pix>& b) const { auto v = b.full(); for (int y = 0; y < h; ++y) for (int x = 0; x < w; ++x) for (int ch = 0; ch < NCH; ++ch) v(x, y)[ch] = (acc_ch)sent; }
    typename pbuf<src_pix>::view_t sview() const { return s.sub(x0, y0, w, h); }
    // source sample at (x,y) where the coordinate along the filtered axis may lie outside the image
    long sample(int x, int y, int ch) const {
        int n = C15_AXIS == 0 ? w : h; int& t = C15_AXIS == 0 ? x : y;
        if (t < 0 || t >= n) {
            if (opt == O_EXT_ZERO) return 0;
            if (opt == O_CONSTANT) t = t < 0 ? 0 : n - 1;
            /* O_PADDED: the declared padding of the buffer is read */
        }
        return num(s.full()(x0 + x, y0 + y)[ch]);
    }
    // textbook value of output (x,y), window offsets k - c (correlate) or c - k (convolve)
    long expect(int x, int y, int ch, bool conv) const {
        int n = C15_AXIS == 0 ? w : h; int t = C15_AXIS == 0 ? x : y;
        if ((opt == O_IGNORE || opt == O_ZERO) && (t - L < 0 || t + R >= n)) return opt == O_ZERO ? 0 : sent;
        long acc = 0;
        for (int k = 0; k < K; ++k) { int o = conv ? c - k : k - c; acc += sample(C15_AXIS == 0 ? x + o : x, C15_AXIS == 0 ? y : y + o, ch) * (long)taps[k]; }
        return acc;
    }
};
template <class V> static bool px_is(V const& v, int x, int y, int ch, long e) { return ACC_FLOAT ? ((float)v(x, y)[ch] == (float)e) : (num(v(x, y)[ch]) == e); }

#if C15_KFIX
using kernel_t = gil::kernel_1d_fixed<ker_t, C15_KFIX>;
static kernel_t make_kernel(ker_t const* t, int K, int c) { return kernel_t(t, (std::size_t)c); }
#define C15_FN(base) base##_fixed
#else
using kernel_t = gil::kernel_1d<ker_t>;
static kernel_t make_kernel(ker_t const* t, int K, int c) { return kernel_t(t, (std::size_t)K, (std::size_t)c); }
#define C15_FN(base) base
#endif
template <class SV, class DV> static void run(SV const& sv, kernel_t const& ker, DV const& dv, int opt, bool conv) {
    gil::boundary_option o = (gil::boundary_option)opt;
#if C15_AXIS == 0
    if (conv) gil::C15_FN(convolve_rows)<acc_pix>(sv, ker, dv, o); else gil::C15_FN(correlate_rows)<acc_pix>(sv, ker, dv, o);
#else
    if (conv) gil::C15_FN(convolve_cols)<acc_pix>(sv, ker, dv, o); else gil::C15_FN(correlate_cols)<acc_pix>(sv, ker, dv, o);
#endif
}

extern "C" {
// (1) the textbook sum at one concrete output pixel (or at every output pixel)
void h_sum(void) {
    setup S; S.init(C15_CONV);
#if C15_KFIX
    vp_assert(S.K == C15_KFIX, "corr.harness_fixed_size");
#endif
    kernel_t ker = make_kernel(S.ktaps, S.K, S.c);
    auto dv = S.d.full();
    run(S.sview(), ker, dv, S.opt, C15_CONV);
    int ox = vp_param(5), oy = vp_param(6);
    for (int y = 0; y < S.h; ++y) for (int x = 0; x < S.w; ++x) {
        if (ox >= 0 && (x != ox || y != oy)) continue;
        for (int ch = 0; ch < NCH; ++ch) vp_assert(px_is(dv, x, y, ch, S.expect(x, y, ch, C15_CONV)), "corr.output_equals_textbook_sum");
    }
}
// (2) convolution == correlation with the reversed kernel (reversal done by the harness: taps reversed, centre mirrored)
void h_conv_is_corr_reversed(void) {
    setup S; S.init(true);
    kernel_t ker = make_kernel(S.ktaps, S.K, S.c);
    ker_t rt[KMAX]; for (int k = 0; k < KMAX; ++k) rt[k] = 0;
    for (int k = 0; k < S.K; ++k) rt[k] = S.ktaps[S.K - 1 - k];
    kernel_t rker = make_kernel(rt, S.K, S.K - 1 - S.c);
    pbuf<acc_pix> d2; d2.alloc(S.w, S.h); S.prefill(d2);
    auto dv = S.d.full(); auto dv2 = d2.full();
    run(S.sview(), ker, dv, S.opt, true);
    run(S.sview(), rker, dv2, S.opt, false);
    for (int y = 0; y < S.h; ++y) for (int x = 0; x < S.w; ++x) for (int ch = 0; ch < NCH; ++ch)
        vp_assert(dv(x, y)[ch] == dv2(x, y)[ch], "corr.convolve_equals_correlate_with_reversed_kernel");
}
#if C15_AXIS == 1
// (3) the column variant equals the row variant on the transposed image (materialised transpose, not a transposed view)
void h_cols_is_rows_transposed(void) {
    setup S; S.init(C15_CONV);
    kernel_t ker = make_kernel(S.ktaps, S.K, S.c);
    // transposed copy of the source buffer including the declared padding
    pbuf<src_pix> ts; ts.alloc(S.s.bh, S.s.bw);
    { auto a = S.s.full(); auto b = ts.full(); for (int y = 0; y < S.s.bh; ++y) for (int x = 0; x < S.s.bw; ++x) b(y, x) = a(x, y); }
    pbuf<acc_pix> d2; d2.alloc(S.h, S.w);
    { auto v = d2.full(); for (int y = 0; y < S.w; ++y) for (int x = 0; x < S.h; ++x) for (int ch = 0; ch < NCH; ++ch) v(x, y)[ch] = (acc_ch)S.sent; }
    auto dv = S.d.full(); auto dv2 = d2.full();
    run(S.sview(), ker, dv, S.opt, C15_CONV);
    gil::boundary_option o = (gil::boundary_option)S.opt;
    auto tsv = ts.sub(S.y0, S.x0, S.h, S.w);
    if (C15_CONV) gil::C15_FN(convolve_rows)<acc_pix>(tsv, ker, dv2, o); else gil::C15_FN(correlate_rows)<acc_pix>(tsv, ker, dv2, o);
    for (int y = 0; y < S.h; ++y) for (int x = 0; x < S.w; ++x) for (int ch = 0; ch < NCH; ++ch)
        vp_assert(dv(x, y)[ch] == dv2(y, x)[ch], "corr.cols_equals_rows_on_transposed_image");
}
#endif
}
