// Shared harness machinery for C11/C12/C13: the in-memory file model and per-format file construction.
// The bytes that decide the parser's control flow (magic, header size, bit depth, compression, image type, dimensions, the
// ASCII header text of PNM) are concrete per query (vp_param); every other byte of the file is symbolic.
// Reason: every data-dependent `io_error_if` splits the execution; after the paths merge the file position and all loop
// counters are symbolic and nothing is decided any more (measured: no verdict in 600 s with a symbolic magic number, 9 s without).
#pragma once
#include <boost/gil.hpp>
#include <cstdio>
#include "vp.hpp"
namespace gil = boost::gil;

struct file_builder {
    unsigned char* d; unsigned long L;
    explicit file_builder(unsigned long len) : L(len) { vp_file_init(len); d = vp_file_data(); }
    void u8(unsigned long i, unsigned v) { if (i < L) d[i] = (unsigned char)v; }
    void le16(unsigned long i, unsigned v) { u8(i, v & 0xFF); u8(i + 1, (v >> 8) & 0xFF); }
    void le32(unsigned long i, unsigned long v) { le16(i, (unsigned)(v & 0xFFFF)); le16(i + 2, (unsigned)((v >> 16) & 0xFFFF)); }
    unsigned long text(unsigned long i, const char* s) { while (*s) { u8(i, (unsigned char)*s); ++i; ++s; } return i; }
    unsigned long num(unsigned long i, unsigned v) { char b[12]; int n = 0; if (v == 0) b[n++] = '0'; while (v) { b[n++] = (char)('0' + v % 10); v /= 10; } while (n) { u8(i++, (unsigned char)b[--n]); } return i; }
    // a symbolic decimal digit at position i (keeps the character class, hence the parser's control flow, concrete)
    // ASCII sample data is concrete (pseudo-random digits from the query's seed parameter): a symbolic digit makes isdigit() a symbolic
    // branch for the symbolic executor and the text parser's loop counters undecidable (no verdict in 300 s)
    void digit(unsigned long i) { u8(i, (unsigned)('0' + (i * 7 + (unsigned long)dseed) % 10)); }
    void bit_digit(unsigned long i) { u8(i, (unsigned)('0' + ((i * 5 + (unsigned long)dseed) / 3) % 2)); }
    int dseed = 0;
};

// A data stream whose structure is concrete and whose payload is symbolic: params[base] = number of bytes n, params[base+1..base+n] =
// the bytes, 256 meaning "leave symbolic" (used for run-length-coded data: packet headers / escapes concrete, colour values symbolic)
// position of the stream description in the parameter vector: base+14 unless the harness reserves those slots (-DVP_STREAM_AT=k)
#ifdef VP_STREAM_AT
#define STREAM_AT(base) (VP_STREAM_AT)
#else
#define STREAM_AT(base) ((base) + 14)
#endif
static inline void structured_stream(file_builder& f, int base, unsigned long at) {
    int n = vp_param(base);
    for (int i = 0; i < n; ++i) { int b = vp_param(base + 1 + i); if (b != 256) f.u8(at + (unsigned long)i, (unsigned)b); }
}
// ---- BMP.  params[base..]: magic_ok, header size, bits per pixel, compression, width, height (negative: top-down),
//      num_colors (-1: symbolic), pixel data offset (-1: symbolic)
static inline void bmp_file(file_builder& f, int base) {
    int magic_ok = vp_param(base), hdr = vp_param(base + 1), bpp = vp_param(base + 2), comp = vp_param(base + 3);
    int w = vp_param(base + 4), h = vp_param(base + 5), ncol = vp_param(base + 6), off = vp_param(base + 7);
    if (magic_ok) { f.u8(0, 'B'); f.u8(1, 'M'); } else { f.u8(0, 'M'); f.u8(1, 'B'); }
    if (off >= 0) f.le32(10, (unsigned long)off);
    f.le32(14, (unsigned long)hdr);
    if (hdr == 12) { f.le16(18, (unsigned)w); f.le16(20, (unsigned)h); f.le16(24, (unsigned)bpp); }
    else { f.le32(18, (unsigned long)(unsigned)w); f.le32(22, (unsigned long)(unsigned)h); f.le16(28, (unsigned)bpp); f.le32(30, (unsigned long)comp);
           if (ncol >= 0) f.le32(46, (unsigned long)ncol); }
    // run-length-coded data: bytes from the data start are bounded (runs, escapes and indices all <= datamax) so that the
    // decoder's loops stay within a small unwinding bound; runs still exceed the row width of the small images used
    int datamax = vp_param(base + 8), datastart = vp_param(base + 9);
    if (datamax > 0) for (unsigned long i = (unsigned long)datastart; i < f.L; ++i) vp_assume(f.d[i] <= datamax);
    if (datamax < 0) structured_stream(f, STREAM_AT(base), (unsigned long)datastart);   // concrete run-length structure from params[base+14..]
}
// ---- TARGA.  params[base..]: id length, colour map type, image type, bits per pixel, descriptor, width, height
static inline void targa_file(file_builder& f, int base) {
    f.u8(0, vp_param(base)); f.u8(1, vp_param(base + 1)); f.u8(2, vp_param(base + 2));
    f.u8(16, vp_param(base + 3)); f.u8(17, vp_param(base + 4));
    f.le16(12, (unsigned)vp_param(base + 5)); f.le16(14, (unsigned)vp_param(base + 6));
    // run-length-coded data: packet headers carry up to 128 pixels; with mask m every data byte b satisfies (b & m) == 0, e.g.
    // m = 0x7C keeps raw/RLE packets of 1..4 pixels, so that the decoder's loops stay within a small unwinding bound
    int mask = vp_param(base + 7), datastart = vp_param(base + 8);
    if (mask > 0) for (unsigned long i = (unsigned long)datastart; i < f.L; ++i) vp_assume((f.d[i] & mask) == 0);
    if (mask < 0) structured_stream(f, STREAM_AT(base), (unsigned long)datastart);
}
// ---- PNM.  params[base..]: type 1..6, width, height, max value, variant
//      variant 0: "P<t>\n<w> <h>\n<max>\n" + data; 1: with a comment line; 2: width with 11 digits; 3 / 4: ascii data with one 17- / 16-digit token (the reader's digit buffer holds 15 digits + NUL)
//      binary data symbolic; ascii data: concrete digits in fixed-width tokens separated by one space; [base+5] = digit seed
static inline void pnm_file(file_builder& f, int base) {
    int t = vp_param(base), w = vp_param(base + 1), h = vp_param(base + 2), mx = vp_param(base + 3), var = vp_param(base + 4);
    f.dseed = vp_param(base + 5);
    unsigned long i = 0;
    f.u8(i++, 'P'); f.u8(i++, (unsigned)('0' + t)); f.u8(i++, '\n');
    if (var == 1) { i = f.text(i, "#c\n"); }
    if (var == 2) { i = f.text(i, "99999999999"); } else { i = f.num(i, (unsigned)w); }
    f.u8(i++, ' '); i = f.num(i, (unsigned)h); f.u8(i++, '\n');
    if (t != 1 && t != 4) { i = f.num(i, (unsigned)mx); f.u8(i++, '\n'); }
    if (t <= 3) {
        int samples = w * h * (t == 3 ? 3 : 1);
        for (int s = 0; s < samples; ++s) {
            if (t == 1) { f.bit_digit(i); ++i; f.u8(i++, ' '); }
            else { int nd = (var == 3 && s == 0) ? 17 : ((var == 4 && s == 0) ? 16 : 3); for (int k = 0; k < nd; ++k) { f.digit(i); ++i; } f.u8(i++, ' '); }
        }
    }
}
