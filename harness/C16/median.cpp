// C16, median_filter with a 3x3 window: every output pixel is the true median of its 3x3 neighbourhood under edge replication.
// Shape parameters: vp_param(0) = width, vp_param(1) = height, vp_param(2), vp_param(3) = the output pixel under test (x,y).
// Symbolic: every pixel of the gray8 source image.  Source and destination are exact-size buffers.
// Median by counting: m is the median of nine values iff m is one of them, at least five are <= m and at least five are >= m.
#include <boost/gil.hpp>
#include <boost/gil/image_processing/filter.hpp>
#include "vp.hpp"
namespace gil = boost::gil;

extern "C" void h_median(void) {
    int w = vp_param(0), h = vp_param(1), ox = vp_param(2), oy = vp_param(3);
    unsigned char* s = (unsigned char*)vp_buf((unsigned long)(w * h));
    unsigned char* d = (unsigned char*)vp_buf((unsigned long)(w * h));
    vp_fill(s, (unsigned long)(w * h));
    unsigned char in[16];
    for (int i = 0; i < w * h; ++i) in[i] = s[i];
    gil::median_filter(gil::interleaved_view(w, h, (gil::gray8_pixel_t const*)s, w), gil::interleaved_view(w, h, (gil::gray8_pixel_t*)d, w), 3);
    unsigned char m = d[oy * w + ox];
    int le = 0, ge = 0; bool member = false;
    for (int dy = -1; dy <= 1; ++dy) for (int dx = -1; dx <= 1; ++dx) {
        int x = ox + dx, y = oy + dy;
        x = x < 0 ? 0 : (x >= w ? w - 1 : x); y = y < 0 ? 0 : (y >= h ? h - 1 : y);     // edge replication
        unsigned char v = in[y * w + x];
        if (v <= m) ++le;
        if (v >= m) ++ge;
        if (v == m) member = true;
    }
    vp_assert(member, "median.is_a_neighbour_value");
    vp_assert(le >= 5 && ge >= 5, "median.is_the_middle_value");
    for (int i = 0; i < w * h; ++i) vp_assert(s[i] == in[i], "median.source_unchanged");
    vp_buf_free(s); vp_buf_free(d);
}
