// C16, morphology: dilate / erode / opening / closing on a gray8 image with a 3x3 structuring element (SE).
// Shape parameters: vp_param(0) = width, vp_param(1) = height (concrete: they decide loop counts and heap sizes),
// vp_param(2) = SE class: every SE is symmetric about its centre (entry (r,c) == entry (2-r,2-c), i.e. B = -B), and
//     0 = also symmetric as a matrix (entry (r,c) == entry (c,r)),  1 = not symmetric as a matrix,  2 = either
//   (0/1 split the definition clause, which fails on class 1 on the unchanged tree: morph_impl reads kernel.at(row, col) although
//    kernel_2d::at takes (x, y), so the SE is applied transposed),
// vp_param(3) = 1: the SE contains its origin (centre entry 1; the property's "hence erode <= src <= dilate" presupposes it), 0: free,
// vp_param(4) = operation selector of the entry point.
// Symbolic: the nine SE entries (0/1), every pixel of the image(s).
// SE layout as documented by kernel_2d::at(x, y) = begin()[y * size + x]: row-major, entry (r,c) stands for the neighbour offset
// (dy,dx) = (r-1,c-1).  Reference: neighbourhood N(x,y) = in-image pixels (x+dx,y+dy) whose SE entry is 1.
#include <boost/gil.hpp>
#include <boost/gil/image_processing/morphology.hpp>
#include "vp.hpp"
namespace gil = boost::gil;
#define MAXPIX 16
using kernel_t = gil::detail::kernel_2d<float>;

struct se_t {
    unsigned char k[3][3];
    void input() {
        for (int r = 0; r < 3; ++r) for (int c = 0; c < 3; ++c) { unsigned char b = vp_nondet_u8(); vp_assume(b <= 1); k[r][c] = b; }
        bool psym = true, tsym = true;
        for (int r = 0; r < 3; ++r) for (int c = 0; c < 3; ++c) { psym = psym && k[r][c] == k[2 - r][2 - c]; tsym = tsym && k[r][c] == k[c][r]; }
        vp_assume(psym);
        int cls = vp_param(2);
        if (cls == 0) vp_assume(tsym);
        if (cls == 1) vp_assume(!tsym);
        if (vp_param(3) == 1) vp_assume(k[1][1] == 1);
    }
    kernel_t kernel() const { kernel_t ker(3, 1, 1); for (int r = 0; r < 3; ++r) for (int c = 0; c < 3; ++c) ker.begin()[r * 3 + c] = (float)k[r][c]; return ker; }
};
struct img_t {
    int w = 0, h = 0; unsigned char* p = nullptr;
    void alloc(int w_, int h_) { w = w_; h = h_; p = (unsigned char*)vp_buf((unsigned long)(w * h)); }
    void fill() { vp_fill(p, (unsigned long)(w * h)); }
    gil::gray8_view_t view() const { return gil::interleaved_view(w, h, (gil::gray8_pixel_t*)p, w); }
    unsigned char at(int x, int y) const { return p[y * w + x]; }
    void free() { vp_buf_free(p); }
};
// reference: max / min over the in-image neighbourhood selected by the SE
static unsigned char ref_ext(img_t const& s, se_t const& e, int x, int y, bool dil, bool& nonempty) {
    int best = dil ? 0 : 255; nonempty = false;
    for (int dy = -1; dy <= 1; ++dy) for (int dx = -1; dx <= 1; ++dx) {
        int u = x + dx, v = y + dy;
        if (e.k[1 + dy][1 + dx] == 1 && u >= 0 && u < s.w && v >= 0 && v < s.h) {
            nonempty = true; int q = s.at(u, v);
            if (dil ? q > best : q < best) best = q;
        }
    }
    return (unsigned char)best;
}

extern "C" {
// dilate == max, erode == min over the in-image neighbourhood (op 0 = dilate, 1 = erode)
void h_morph_def(void) {
    int w = vp_param(0), h = vp_param(1); bool dil = vp_param(4) == 0;
    se_t e; e.input();
    img_t s, d; s.alloc(w, h); d.alloc(w, h); s.fill();
    kernel_t ker = e.kernel();
    if (dil) gil::dilate(s.view(), d.view(), ker, 1); else gil::erode(s.view(), d.view(), ker, 1);
    for (int y = 0; y < h; ++y) for (int x = 0; x < w; ++x) {
        bool ne; unsigned char want = ref_ext(s, e, x, y, dil, ne);
        if (ne) vp_assert(d.at(x, y) == want, "morph.equals_extremum_over_neighbourhood");
    }
    s.free(); d.free();
}
// erode <= src <= dilate
void h_morph_order(void) {
    int w = vp_param(0), h = vp_param(1);
    se_t e; e.input();
    img_t s, d, r; s.alloc(w, h); d.alloc(w, h); r.alloc(w, h); s.fill();
    kernel_t ker = e.kernel();
    gil::dilate(s.view(), d.view(), ker, 1);
    gil::erode(s.view(), r.view(), ker, 1);
    for (int i = 0; i < w * h; ++i) {
        vp_assert(r.p[i] <= s.p[i], "morph.erode_le_src");
        vp_assert(s.p[i] <= d.p[i], "morph.src_le_dilate");
    }
    s.free(); d.free(); r.free();
}
// monotone: f <= g pointwise  =>  op(f) <= op(g)   (op 0 = dilate, 1 = erode)
void h_morph_mono(void) {
    int w = vp_param(0), h = vp_param(1); bool dil = vp_param(4) == 0;
    se_t e; e.input();
    img_t f, g, of, og; f.alloc(w, h); g.alloc(w, h); of.alloc(w, h); og.alloc(w, h); f.fill(); g.fill();
    for (int i = 0; i < w * h; ++i) vp_assume(f.p[i] <= g.p[i]);
    kernel_t ker = e.kernel();
    if (dil) { gil::dilate(f.view(), of.view(), ker, 1); gil::dilate(g.view(), og.view(), ker, 1); }
    else { gil::erode(f.view(), of.view(), ker, 1); gil::erode(g.view(), og.view(), ker, 1); }
    for (int i = 0; i < w * h; ++i) vp_assert(of.p[i] <= og.p[i], "morph.monotone");
    f.free(); g.free(); of.free(); og.free();
}
// opening <= src <= closing
void h_morph_openclose(void) {
    int w = vp_param(0), h = vp_param(1);
    se_t e; e.input();
    img_t s, o, c; s.alloc(w, h); o.alloc(w, h); c.alloc(w, h); s.fill();
    kernel_t ker = e.kernel();
    gil::opening(s.view(), o.view(), ker);
    gil::closing(s.view(), c.view(), ker);
    for (int i = 0; i < w * h; ++i) {
        vp_assert(o.p[i] <= s.p[i], "morph.opening_le_src");
        vp_assert(s.p[i] <= c.p[i], "morph.src_le_closing");
    }
    s.free(); o.free(); c.free();
}
// idempotent: op(op(f)) == op(f)   (op 0 = opening, 1 = closing)
void h_morph_idem(void) {
    int w = vp_param(0), h = vp_param(1); bool open = vp_param(4) == 0;
    se_t e; e.input();
    img_t s, a, b; s.alloc(w, h); a.alloc(w, h); b.alloc(w, h); s.fill();
    kernel_t ker = e.kernel();
    if (open) { gil::opening(s.view(), a.view(), ker); gil::opening(a.view(), b.view(), ker); }
    else { gil::closing(s.view(), a.view(), ker); gil::closing(a.view(), b.view(), ker); }
    for (int i = 0; i < w * h; ++i) vp_assert(a.p[i] == b.p[i], "morph.idempotent");
    s.free(); a.free(); b.free();
}
}
