// C16, fixed thresholds: threshold_binary (both overloads) and threshold_truncate compute, independently for every channel of every
// pixel, the documented comparison against the threshold.
// Shape parameters: CHAN_T (channel type of source and destination, -D), vp_param(0) = direction (0 regular, 1 inverse),
// vp_param(1) = truncate mode (0 threshold, 1 zero).  View: 2x1 rgb (three channels), exact-size pixel buffers.
// Symbolic: all six source channels, the threshold, the maximum value.
#include <boost/gil.hpp>
#include <boost/gil/image_processing/threshold.hpp>
#include <limits>
#include "vp.hpp"
namespace gil = boost::gil;
using chan_t = CHAN_T;
using pixel_t = gil::pixel<chan_t, gil::rgb_layout_t>;
using view_t = gil::image_view<gil::memory_based_2d_locator<gil::memory_based_step_iterator<pixel_t*>>>;
static const int W = 2, H = 1, NC = 3;

template <class T> struct sym { static T get() { T v; vp_fill(&v, sizeof v); return v; } };
// floats: any non-NaN value (the documented comparison is not defined for NaN)
template <> struct sym<float> { static float get() { float f = vp_nondet_float(); vp_assume(f == f); return f; } };

struct thr_case {
    chan_t* s; chan_t* d; view_t sv, dv; chan_t in[W * H * NC]; chan_t t, mx;
    void make() {
        s = (chan_t*)vp_buf(sizeof(chan_t) * W * H * NC); d = (chan_t*)vp_buf(sizeof(chan_t) * W * H * NC);
        for (int i = 0; i < W * H * NC; ++i) { in[i] = sym<chan_t>::get(); s[i] = in[i]; }
        t = sym<chan_t>::get();
        mx = sym<chan_t>::get();
        sv = gil::interleaved_view(W, H, (pixel_t*)s, W * sizeof(pixel_t));
        dv = gil::interleaved_view(W, H, (pixel_t*)d, W * sizeof(pixel_t));
    }
    void done() { vp_buf_free(s); vp_buf_free(d); }
};
static gil::threshold_direction dir() { return vp_param(0) == 0 ? gil::threshold_direction::regular : gil::threshold_direction::inverse; }

extern "C" {
// regular: value > threshold -> max_value else 0; inverse: value > threshold -> 0 else max_value
void h_thr_binary(void) {
    thr_case c; c.make();
    gil::threshold_binary(c.sv, c.dv, c.t, c.mx, dir());
    for (int i = 0; i < W * H * NC; ++i) {
        bool gt = c.in[i] > c.t;
        chan_t want = (vp_param(0) == 0) ? (gt ? c.mx : chan_t(0)) : (gt ? chan_t(0) : c.mx);
        vp_assert(c.d[i] == want, "thr.binary_per_channel");
        vp_assert(c.s[i] == c.in[i], "thr.binary_source_unchanged");
    }
    c.done();
}
// same with the channel type's maximum as max_value
void h_thr_binary_max(void) {
    thr_case c; c.make();
    gil::threshold_binary(c.sv, c.dv, c.t, dir());
    chan_t mx = (std::numeric_limits<chan_t>::max)();
    for (int i = 0; i < W * H * NC; ++i) {
        bool gt = c.in[i] > c.t;
        chan_t want = (vp_param(0) == 0) ? (gt ? mx : chan_t(0)) : (gt ? chan_t(0) : mx);
        vp_assert(c.d[i] == want, "thr.binary_default_max_per_channel");
    }
    c.done();
}
// mode threshold: regular: value > t -> t else unchanged; inverse: value <= t -> t else unchanged
// mode zero:      regular: value <= t -> 0 else unchanged; inverse: value > t -> 0 else unchanged
void h_thr_truncate(void) {
    thr_case c; c.make();
    gil::threshold_truncate(c.sv, c.dv, c.t, vp_param(1) == 0 ? gil::threshold_truncate_mode::threshold : gil::threshold_truncate_mode::zero, dir());
    for (int i = 0; i < W * H * NC; ++i) {
        chan_t v = c.in[i]; bool gt = v > c.t; chan_t want;
        if (vp_param(1) == 0) want = (vp_param(0) == 0) ? (gt ? c.t : v) : (gt ? v : c.t);
        else want = (vp_param(0) == 0) ? (gt ? v : chan_t(0)) : (gt ? chan_t(0) : v);
        vp_assert(c.d[i] == want, "thr.truncate_per_channel");
        vp_assert(c.s[i] == c.in[i], "thr.truncate_source_unchanged");
    }
    c.done();
}
}
