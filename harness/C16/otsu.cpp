// C16, threshold_optimal (Otsu): terminates without undefined behaviour; output is a single-threshold function of the input.
// Shape parameters: CHAN_T (-D; gray pixel of that channel type), vp_param(0) = width, vp_param(1) = height,
// vp_param(2) = image class: 0 = any pixel values, 1 = constant image (all pixels equal one symbolic value),
//   2 = only images on which the non-8-bit branch of the unchanged tree stays in range: every pixel <= the last pixel (row-major) and
//       the last pixel != numeric_limits<T>::min()
//   3 = the last pixel == numeric_limits<T>::min() (division by zero on the unchanged tree)
//   6 = the last pixel != numeric_limits<T>::min() and some pixel > the last pixel (negative histogram index on the unchanged tree)
//   4 = constant image whose value is not numeric_limits<T>::min()      5 = constant image of value numeric_limits<T>::min()
//   (2, 3, 6 partition the non-empty images; 4, 5 partition the constant ones; see props/C16.py),
// vp_param(3) = direction (0 regular, 1 inverse).  Symbolic: all pixel values.
#include <boost/gil.hpp>
#include <boost/gil/image_processing/threshold.hpp>
#include <limits>
#include "vp.hpp"
namespace gil = boost::gil;
using chan_t = CHAN_T;
using pixel_t = gil::pixel<chan_t, gil::gray_layout_t>;
#define MAXPIX 16

struct otsu_case {
    int w, h, n; chan_t* s; chan_t* d; chan_t in[MAXPIX];
    void run() {
        w = vp_param(0); h = vp_param(1); n = w * h;
        s = (chan_t*)vp_buf(sizeof(chan_t) * n); d = (chan_t*)vp_buf(sizeof(chan_t) * n);
        int cls = vp_param(2);
        chan_t first = chan_t();
        for (int i = 0; i < n; ++i) {
            chan_t v; vp_fill(&v, sizeof v);
            if ((cls == 1 || cls == 4 || cls == 5) && i > 0) v = first;
            if (i == 0) first = v;
            in[i] = v; s[i] = v;
        }
        if (n > 0 && cls == 4) vp_assume(first != (std::numeric_limits<chan_t>::min)());
        if (n > 0 && cls == 5) vp_assume(first == (std::numeric_limits<chan_t>::min)());
        if (n > 0 && (cls == 2 || cls == 3 || cls == 6)) {
            bool last_is_min = in[n - 1] == (std::numeric_limits<chan_t>::min)();
            bool all_le = true;
            for (int i = 0; i < n; ++i) all_le = all_le && in[i] <= in[n - 1];
            vp_assume(cls == 3 ? last_is_min : (cls == 2 ? (!last_is_min && all_le) : (!last_is_min && !all_le)));
        }
        auto sv = gil::interleaved_view(w, h, (pixel_t const*)s, w * sizeof(pixel_t));
        auto dv = gil::interleaved_view(w, h, (pixel_t*)d, w * sizeof(pixel_t));
        gil::threshold_optimal(sv, dv, gil::threshold_optimal_value::otsu,
                               vp_param(3) == 0 ? gil::threshold_direction::regular : gil::threshold_direction::inverse);
    }
    void done() { vp_buf_free(s); vp_buf_free(d); }
};

extern "C" {
// no undefined behaviour, no access outside source / destination / the 256-bin histogram (only generated obligations; no harness assertion
// on the result, so the 256-iteration double-precision variance loop is sliced away wherever no obligation depends on it)
void h_otsu_safe(void) {
    otsu_case c; c.run();
    vp_assert(c.n == vp_param(0) * vp_param(1), "otsu.ran");
    c.done();
}
// the output is threshold_binary for one threshold: every output is 0 or the channel maximum, and the output is monotone in the input
// (non-decreasing for regular, non-increasing for inverse), checked for every pair of pixels
void h_otsu_single(void) {
    otsu_case c; c.run();
    chan_t mx = (std::numeric_limits<chan_t>::max)();
    for (int i = 0; i < c.n; ++i) {
        vp_assert(c.d[i] == 0 || c.d[i] == mx, "otsu.output_is_binary");
        for (int j = 0; j < c.n; ++j) {
            if (c.in[i] <= c.in[j]) vp_assert(vp_param(3) == 0 ? c.d[i] <= c.d[j] : c.d[i] >= c.d[j], "otsu.single_threshold");
        }
    }
    c.done();
}
}
