// C03: all navigation paths over a view reach the same pixel; iterator / locator laws.
// Shape parameters: SRC, XF1 (view kind under test = XF1 applied to SRC).  Everything else symbolic.
#include "views.hpp"
#ifndef XF1
#define XF1 xf_id
#endif
#if ADDRESSABLE
#define SAME(a, b) same_px((a), (b))
#else
#define SAME(a, b) ((a) == (b))
#endif
extern "C" {
void h_paths(void) {
    SRC s; auto v = s.make();
    XF1 f; f.init(s.w, s.h);
    auto t = f.apply(v);
    using view_t = decltype(t);
    int w = (int)t.width(), h = (int)t.height();
    vp_assert(t.size() == (std::size_t)(w * h), "nav.size");
    vp_assert(t.end() - t.begin() == w * h, "nav.end_minus_begin");
    int x, y; vp_coord(w, h, x, y);
    int i = y * w + x;
    vp_assert(SAME(t.row_begin(y)[x], t(x, y)), "nav.row_begin");
    vp_assert(SAME(t.col_begin(x)[y], t(x, y)), "nav.col_begin");
    vp_assert(SAME(t.begin()[i], t(x, y)), "nav.begin_index");
    vp_assert(SAME(t[i], t(x, y)), "nav.operator_index");
    vp_assert(SAME(*t.at(x, y), t(x, y)), "nav.at");
    vp_assert(SAME(t.rbegin()[w * h - 1 - i], t(x, y)), "nav.rbegin");
    vp_assert(SAME(*t.xy_at(x, y), t(x, y)), "nav.xy_at");
    vp_assert(SAME(*t.x_at(x, y), t(x, y)), "nav.x_at");
    vp_assert(SAME(*t.y_at(x, y), t(x, y)), "nav.y_at");
    vp_assert(SAME(*(t.row_end(y) - (w - x)), t(x, y)), "nav.row_end");
    vp_assert(SAME(*(t.col_end(x) - (h - y)), t(x, y)), "nav.col_end");
    vp_assert(SAME(t(gil::point_t(x, y)), t(x, y)), "nav.point_call");
    vp_assert(t.at(x, y).x_pos() == x && t.at(x, y).y_pos() == y, "nav.iterator_position");
}
// locator moved by a sequence of 2-D offsets / axis increments; cached location
void h_locator(void) {
    SRC s; auto v = s.make();
    XF1 f; f.init(s.w, s.h);
    auto t = f.apply(v);
    int w = (int)t.width(), h = (int)t.height();
    int x0, y0; vp_coord(w, h, x0, y0);
    int x1, y1; vp_coord(w, h, x1, y1);
    int x2, y2; vp_coord(w, h, x2, y2);
    auto loc = t.xy_at(x0, y0);
    loc += gil::point_t(x1 - x0, y1 - y0);
    vp_assert(SAME(*loc, t(x1, y1)), "loc.plus_equals");
    vp_assert(SAME(loc(x2 - x1, y2 - y1), t(x2, y2)), "loc.call_offset");
    vp_assert(SAME(loc[gil::point_t(x2 - x1, y2 - y1)], t(x2, y2)), "loc.index_offset");
    auto c = loc.cache_location(x2 - x1, y2 - y1);
    vp_assert(SAME(loc[c], t(x2, y2)), "loc.cached_location");
    auto l2 = loc + gil::point_t(x2 - x1, y2 - y1);
    vp_assert(SAME(*l2, t(x2, y2)), "loc.plus");
    vp_assert(l2 == t.xy_at(x2, y2), "loc.equality");
    auto l3 = l2 - gil::point_t(x2 - x0, y2 - y0);
    vp_assert(SAME(*l3, t(x0, y0)), "loc.minus");
    // axis iterators
    auto l4 = t.xy_at(x0, y0);
    l4.x() += (x2 - x0);
    l4.y() += (y2 - y0);
    vp_assert(SAME(*l4, t(x2, y2)), "loc.axis_advance");
    vp_assert(SAME(*loc.x_at(x2 - x1, y2 - y1), t(x2, y2)), "loc.x_at");
    vp_assert(SAME(*loc.y_at(x2 - x1, y2 - y1), t(x2, y2)), "loc.y_at");
    if (x0 + 1 < w) { auto l5 = t.xy_at(x0, y0); ++l5.x(); vp_assert(SAME(*l5, t(x0 + 1, y0)), "loc.x_increment"); --l5.x(); vp_assert(l5 == t.xy_at(x0, y0), "loc.x_inc_dec"); }
    if (y0 + 1 < h) { auto l6 = t.xy_at(x0, y0); ++l6.y(); vp_assert(SAME(*l6, t(x0, y0 + 1)), "loc.y_increment"); --l6.y(); vp_assert(l6 == t.xy_at(x0, y0), "loc.y_inc_dec"); }
}
// random-access laws of the 1-D iterator (positions 0..w*h, i.e. including end()), crossing row ends
void h_laws(void) {
    SRC s; auto v = s.make();
    XF1 f; f.init(s.w, s.h);
    auto t = f.apply(v);
    int w = (int)t.width(), h = (int)t.height();
    int n = w * h;
    int i = vp_range(0, VP_MAXDIM * VP_MAXDIM); vp_assume(i <= n);
    int j = vp_range(0, VP_MAXDIM * VP_MAXDIM); vp_assume(j <= n);
    int k = vp_range(0, VP_MAXDIM * VP_MAXDIM); vp_assume(k <= n);
    auto b = t.begin();
    auto it = b + i;
    auto jt = it + (j - i);
    vp_assert(it - b == i, "law.distance_from_begin");
    vp_assert(jt - it == j - i, "law.advance_distance");
    vp_assert(it - jt == i - j, "law.distance_antisymmetric");
    vp_assert((it < jt) == (j - i > 0), "law.less_iff_positive_distance");
    vp_assert((it == jt) == (i == j), "law.equal_iff_zero_distance");
    vp_assert((it <= jt) == (i <= j) && (it > jt) == (i > j) && (it >= jt) == (i >= j), "law.ordering");
    auto kt = (it + (j - i)) + (k - j);
    auto kt2 = it + ((j - i) + (k - j));
    vp_assert(kt == kt2, "law.advance_associative");
    vp_assert(kt - b == k, "law.associative_position");
    if (j < n) { vp_assert(SAME(*jt, t(j % w, j / w)), "law.deref_after_advance"); vp_assert(jt.x_pos() == j % w && jt.y_pos() == j / w, "law.position_after_advance"); }
    if (i < n) { auto p = it; ++p; vp_assert(p - b == i + 1, "law.increment"); --p; vp_assert(p == it, "law.inc_dec_identity"); auto q = it; q++; vp_assert(q - it == 1, "law.post_increment"); }
    if (i > 0) { auto p = it; --p; vp_assert(p - b == i - 1, "law.decrement"); ++p; vp_assert(p == it, "law.dec_inc_identity"); }
    vp_assert(t.end() - b == n, "law.end_minus_begin");
    vp_assert((b + n) == t.end(), "law.begin_plus_size_is_end");
    vp_assert(t.end() - it == n - i, "law.distance_to_end");
    it += (j - i); vp_assert(it == jt, "law.plus_equals");
    it -= (j - k); vp_assert(it - b == k, "law.minus_equals");
}
// x / y step iterators: random access laws along a row and a column
void h_axis(void) {
    SRC s; auto v = s.make();
    XF1 f; f.init(s.w, s.h);
    auto t = f.apply(v);
    int w = (int)t.width(), h = (int)t.height();
    int x, y; vp_coord(w, h, x, y);
    int a = vp_range(0, VP_MAXDIM); vp_assume(a <= w);
    int c = vp_range(0, VP_MAXDIM); vp_assume(c <= w);
    auto r0 = t.row_begin(y);
    auto ra = r0 + a; auto rc = ra + (c - a);
    vp_assert(ra - r0 == a && rc - ra == c - a && rc - r0 == c, "axis.x_distance");
    vp_assert((ra < rc) == (a < c) && (ra == rc) == (a == c) && (ra > rc) == (a > c), "axis.x_order");
    vp_assert(t.row_end(y) - r0 == w, "axis.row_end_minus_begin");
    if (a < w) { auto p = ra; ++p; --p; vp_assert(p == ra, "axis.x_inc_dec"); vp_assert(SAME(*ra, t(a, y)), "axis.x_deref"); vp_assert(SAME(r0[a], t(a, y)), "axis.x_index"); }
    int d = vp_range(0, VP_MAXDIM); vp_assume(d <= h);
    int e = vp_range(0, VP_MAXDIM); vp_assume(e <= h);
    auto c0 = t.col_begin(x);
    auto cd = c0 + d; auto ce = cd + (e - d);
    vp_assert(cd - c0 == d && ce - cd == e - d && ce - c0 == e, "axis.y_distance");
    vp_assert((cd < ce) == (d < e) && (cd == ce) == (d == e) && (cd > ce) == (d > e), "axis.y_order");
    vp_assert(t.col_end(x) - c0 == h, "axis.col_end_minus_begin");
    if (d < h) { auto p = cd; ++p; --p; vp_assert(p == cd, "axis.y_inc_dec"); vp_assert(SAME(*cd, t(x, d)), "axis.y_deref"); vp_assert(SAME(c0[d], t(x, d)), "axis.y_index"); }
#if ADDRESSABLE
    // is_1d_traversable() only when stepping an x-iterator past the end of a row lands on the first pixel of the next row
    if (y + 1 < h && t.is_1d_traversable()) { vp_assert(t.row_end(y) == t.row_begin(y + 1), "axis.traversable_implies_row_end_is_next_row"); vp_assert(SAME(*(t.row_begin(y) + w), t(0, y + 1)), "axis.traversable_deref"); }
#endif
}
// empty and default-constructed views: begin()==end(), advancing is harmless (no division by zero)
void h_empty(void) {
    SRC s; auto v = s.make();
    XF1 f; f.init(s.w, s.h);
    auto t = f.apply(v);
    decltype(t) d;
    vp_assert(d.begin() == d.end() && d.size() == 0 && d.width() == 0 && d.height() == 0, "empty.default_view");
    int k = vp_range(-3, 3);
    auto di = d.begin(); di += k; vp_assert(di - d.begin() == 0 || true, "empty.default_advance_no_ub");
    auto dj = d.begin(); vp_assert(dj - d.end() == 0, "empty.default_distance");
    if (t.width() == 0 || t.height() == 0) {
        vp_assert(t.size() == 0, "empty.size");
        if (t.width() == 0) { auto it = t.begin(); it += k; auto e = t.end(); vp_assert(e - t.begin() == 0, "empty.zero_width_distance"); }
        else vp_assert(t.begin() == t.end(), "empty.begin_is_end");
    }
}
}
