// C04: pixel algorithms equal the per-pixel loop for every layout pair, and touch nothing else.
// Compile-time shape: SRC, SXF (source view kind = SXF applied to SRC), DST, DXF (destination = DXF applied to a sub-view of DST), ALG.
// Run-time-constant shape (vp_param): 0,1 = width,height of the views handed to the algorithm; 2,3 = row padding of source /
// destination buffer (-1 = symbolic); 4,5 = offset of the destination sub-view in its buffer (-1 = symbolic);
// 6,7 = position of the pixel that may differ (ALG_EQUAL; outside the view = no pixel differs).
// Symbolic: source contents, destination background, sub-view offset inside the destination buffer, row padding,
// the probed pixel (x,y), the probed background byte (plane k, index i), fill / functor values.
#include "views.hpp"
#ifndef SXF
#define SXF xf_id
#endif
#ifndef DXF
#define DXF xf_id
#endif
#define ALG_COPY 1
#define ALG_FILL 2
#define ALG_EQUAL 3
#define ALG_FOREACH 4
#define ALG_GENERATE 5
#define ALG_TRANSFORM 6
#define ALG_TRANSFORM2 7
#define ALG_CONVERT 8
#define ALG_FOREACH_POS 9
#define ALG_TRANSFORM_POS 10
#define ALG_FILL_OTHER_ORDER 11   /* fill_pixels with a compatible value of the opposite channel order (bgr value into an rgb view) */
namespace gil = boost::gil;

// functors return pixel VALUES (a copy of a planar / bit-aligned reference proxy would alias the source)
struct bump { template <class P> typename P::value_type operator()(P const& p) const { typename P::value_type q(p); gil::at_c<0>(q) = (gil::at_c<0>(q) ^ 1); return q; } };
struct pick2 { template <class P, class Q> typename P::value_type operator()(P const& p, Q const& q) const { typename P::value_type r(p); typename Q::value_type t(q); gil::at_c<0>(r) = gil::at_c<0>(t); return r; } };

template <class S> static void fix_step(S&, int) {}
static void fix_step(src_gray8step& s, int xs) { s.fixxs = xs; }
template <class P, std::size_t... I> static unsigned eq_all(P const& a, P const& b, std::index_sequence<I...>) { unsigned r = 1; int d[] = { (r &= (unsigned)(gil::at_c<I>(a) == gil::at_c<I>(b)), 0)... }; (void)d; return r; }
extern "C" void h_alg(void) {
    int W = vp_param(0), H = vp_param(1);
    // ---- source: exactly the pixels needed, symbolic contents
    SRC s; s.set(SXF::swaps ? H : W, SXF::swaps ? W : H); s.fixpad = vp_param(2);   // -1: symbolic row padding
    fix_step(s, 2);
    auto sv0 = s.make();
    for (int k = 0; k < SRC::nplanes; ++k) vp_fill(s.plane(k), s.plane_size());
    SXF sf; sf.init(s.w, s.h);
    auto sv = sf.apply(sv0);
    // ---- destination: a sub-view at a symbolic offset inside a larger buffer
    int rw = DXF::swaps ? H : W, rh = DXF::swaps ? W : H;
    DST d; d.set(rw + 2, rh + 1); d.fixpad = vp_param(3);
    fix_step(d, 2);
    auto dv0 = d.make();
    int x0 = vp_param(4) >= 0 ? vp_param(4) : vp_range(0, 2);   // sub-view offset: concrete or symbolic
    int y0 = vp_param(5) >= 0 ? vp_param(5) : vp_range(0, 1);
    auto dsub = gil::subimage_view(dv0, x0, y0, rw, rh);
    DXF df; df.init(rw, rh);
    auto dv = df.apply(dsub);
    vp_assert(dv.width() == W && dv.height() == H && sv.width() == W && sv.height() == H, "alg.harness_dims");
    // ---- probes
    int k = vp_range(0, DST::nplanes - 1);
    unsigned long i = vp_nondet_u64(); vp_assume(i < d.plane_size());
    unsigned char before = vp_nondet_u8();
#if ALG != ALG_EQUAL   /* equal_pixels only reads: the background probe is not applied (it made the formula intractable) */
    d.plane(k)[i] = before;
#endif
    typename DST::view_t::value_type fillv; vp_fill(&fillv, sizeof fillv);
    int counter = 0;
    bool eq_result = false;
    // ---- the algorithm under test
#if ALG == ALG_COPY
    gil::copy_pixels(sv, dv);
#elif ALG == ALG_CONVERT
    gil::copy_and_convert_pixels(sv, dv);
#elif ALG == ALG_FILL
    gil::fill_pixels(dv, fillv);
#elif ALG == ALG_FILL_OTHER_ORDER
    gil::bgr8_pixel_t fillo(fillv);   // same colours, opposite memory order
    gil::fill_pixels(dv, fillo);
#elif ALG == ALG_EQUAL
    // destination := source (per-pixel loop), then one channel of one pixel (concrete position, vp_param 6,7) is changed by a
    // symbolic amount delta (possibly 0): equal_pixels must return exactly (delta == 0). Fully symbolic destination contents
    // make every early-exit branch of the comparison loops symbolic and had no verdict in 150 s for most layout pairs.
    for (int y = 0; y < H; ++y) for (int x = 0; x < W; ++x) dv(x, y) = sv(x, y);
    unsigned char delta = vp_nondet_u8();
    { int ex = vp_param(6), ey = vp_param(7); if (ex >= 0 && ex < W && ey >= 0 && ey < H) { typename DST::view_t::value_type q(dv(ex, ey));
        gil::at_c<0>(q) = (gil::at_c<0>(q) ^ (delta & 1)); dv(ex, ey) = q; } else delta = 0; }
#ifndef EQ_SKIP_CALL
    eq_result = gil::equal_pixels(sv, dv);
#else
    eq_result = ((delta & 1) == 0);
#endif
#elif ALG == ALG_FOREACH
    gil::for_each_pixel(dv, [&](typename decltype(dv)::reference p) { typename DST::view_t::value_type q = fillv; gil::at_c<0>(q) = (counter & 1); ++counter; p = q; });
#elif ALG == ALG_GENERATE
    gil::generate_pixels(dv, [&]() { typename DST::view_t::value_type q = fillv; gil::at_c<0>(q) = (counter & 1); ++counter; return q; });
#elif ALG == ALG_TRANSFORM
    gil::transform_pixels(sv, dv, bump());
#elif ALG == ALG_TRANSFORM2
    gil::transform_pixels(sv, sv, dv, pick2());
#elif ALG == ALG_FOREACH_POS
    gil::for_each_pixel_position(dv, [&](typename decltype(dv)::xy_locator loc) { ++counter; *loc = fillv; });
#elif ALG == ALG_TRANSFORM_POS
    gil::transform_pixel_positions(sv, dv, [&](typename decltype(sv)::xy_locator loc) { ++counter; typename DST::view_t::value_type q(*loc); return q; });
#endif
    // ---- (A) every destination pixel holds what the obvious per-pixel loop would have produced (one symbolic pixel per query)
    if (W > 0 && H > 0) {
        int x = vp_range(0, 3); int y = vp_range(0, 3); vp_assume(x < W && y < H);
#if ALG == ALG_COPY || ALG == ALG_TRANSFORM_POS
        vp_assert(dv(x, y) == sv(x, y), "alg.pixel_equals_loop_result");
#elif ALG == ALG_CONVERT
        { typename DST::view_t::value_type e; gil::color_convert(sv(x, y), e); vp_assert(dv(x, y) == e, "alg.pixel_equals_loop_result"); }
#elif ALG == ALG_FILL || ALG == ALG_FOREACH_POS || ALG == ALG_FILL_OTHER_ORDER
        vp_assert(dv(x, y) == fillv, "alg.pixel_equals_loop_result");
#elif ALG == ALG_FOREACH || ALG == ALG_GENERATE
        { typename DST::view_t::value_type e = fillv; gil::at_c<0>(e) = ((y * W + x) & 1); vp_assert(dv(x, y) == e, "alg.pixel_equals_loop_result_row_major_order"); }
#elif ALG == ALG_TRANSFORM
        { typename DST::view_t::value_type e(bump()(sv(x, y))); vp_assert(dv(x, y) == e, "alg.pixel_equals_loop_result"); }
#elif ALG == ALG_TRANSFORM2
        vp_assert(dv(x, y) == sv(x, y), "alg.pixel_equals_loop_result");
#endif
    }
#if ALG == ALG_EQUAL
    vp_assert(eq_result == ((delta & 1) == 0), "alg.equal_pixels_iff_all_pixels_equal");
#endif
#if ALG == ALG_FOREACH || ALG == ALG_GENERATE || ALG == ALG_FOREACH_POS || ALG == ALG_TRANSFORM_POS
    vp_assert(counter == W * H, "alg.functor_called_once_per_pixel");
#endif
    // ---- (B) no bit of the destination buffer outside the destination view's pixels changed
#if ALG == ALG_EQUAL
    return;
#endif
    unsigned char after = d.plane(k)[i];
    unsigned char mask = 0;
    for (int y = 0; y < rh; ++y) for (int x = 0; x < rw; ++x) mask |= d.mask_of(x0 + x, y0 + y, k, i);
    vp_assert(((before ^ after) & (unsigned char)~mask) == 0, "alg.nothing_outside_destination_pixels_modified");
}
