// C04 (image equality clause): operator== / != of gil::image equal the obvious loop over dimensions and pixels.
#include "views.hpp"

// ---- image equality (operator== / != of gil::image) is the obvious loop: equal dimensions and equal pixels.
// Two images with the same number of pixels and the same row-major contents but different shapes (w x h against h x w, vp_param 0,1)
// are not equal; two images of the same shape are equal exactly when no pixel differs (one pixel at a concrete position, vp_param 6,7,
// differs by a symbolic amount).  IMG_PIX = pixel type, IMG_PLANAR = 0/1.
#ifndef IMG_PIX
#define IMG_PIX gil::rgb8_pixel_t
#endif
#ifndef IMG_PLANAR
#define IMG_PLANAR 0
#endif
extern "C" void h_image_eq(void) {
    using img_t = gil::image<IMG_PIX, IMG_PLANAR != 0>;
    int W = vp_param(0), H = vp_param(1);
    img_t a(W, H), b(H, W), c(W, H);
    {
        auto va = gil::view(a); auto vb = gil::view(b); auto vc = gil::view(c);
        int n = 0;
        for (int y = 0; y < H; ++y) for (int x = 0; x < W; ++x, ++n) {
            IMG_PIX p; vp_fill(&p, sizeof p);
            va(x, y) = p; vc(x, y) = p; vb(n % H, n / H) = p;   // b: same row-major sequence in the transposed shape
        }
        unsigned char delta = vp_nondet_u8();
        int ex = vp_param(6), ey = vp_param(7);
        if (ex >= 0 && ex < W && ey >= 0 && ey < H) { IMG_PIX q(vc(ex, ey)); gil::at_c<0>(q) = (typename gil::channel_type<IMG_PIX>::type)(gil::at_c<0>(q) ^ (delta & 1)); vc(ex, ey) = q; } else delta = 0;
        vp_assert((a == c) == ((delta & 1) == 0) && (a != c) == ((delta & 1) != 0), "alg.image_equality_iff_all_pixels_equal");
    }
    // (an image constructed with a zero dimension reports 0x0, so shapes are compared as the images report them)
    if (a.dimensions() != b.dimensions()) vp_assert(!(a == b) && (a != b), "alg.images_of_different_shape_are_not_equal");
}
