// C12: writing a view and reading it back reproduces it (BMP, binary PNM, TARGA through FILE* / file name).
// Compile-time shape: FORMAT (1 bmp, 2 pnm, 3 targa), PIX (pixel type the format supports), ORG (1 interleaved, 2 planar,
// 3 sub-view of a larger interleaved image, 4 x-stepped view (every second pixel), 5 y-flipped view), DEV (1 FILE*, 2 file name, 3 std::ostream for writing / std::istream for reading back).
// Run-time-constant shape: vp_param(0,1) = width, height (>= 1).  Symbolic: every pixel, the probed coordinate.
#include "../io/io.hpp"
#include <istream>
#include <ostream>
#if FORMAT == 1
#include <boost/gil/extension/io/bmp.hpp>
using tag_t = gil::bmp_tag;
#elif FORMAT == 2
#include <boost/gil/extension/io/pnm.hpp>
using tag_t = gil::pnm_tag;
#else
#include <boost/gil/extension/io/targa.hpp>
using tag_t = gil::targa_tag;
#endif
using pix_t = PIX;
using img_t = gil::image<pix_t, false>;
using pimg_t = gil::image<pix_t, true>;
#if ORG == 6
using back_t = gil::gray1_image_t;   // bit-aligned 1-bit gray (PNM P4): rows are packed 8 pixels to a byte
#else
using back_t = img_t;
#endif

template <class View> static void round_trip(View const& v, int W, int H) {
#if DEV == 1
    FILE* fw = (FILE*)vp_fopen_write();
    gil::write_view(fw, v, tag_t());
#elif DEV == 3
    { std::ostream& out = *static_cast<std::ostream*>(vp_ostream()); gil::write_view(out, v, tag_t()); }
    vp_ostream_done();
#else
    vp_file_set_len(0);
    const char* nm = vp_file_name();
    gil::write_view(nm, v, tag_t());
#endif
    vp_assert(!vp_file_is_open(), "rt.stream_closed_after_write");
    back_t back;
#if DEV == 1
    FILE* fr = (FILE*)vp_fopen_read();
    gil::read_image(fr, back, tag_t());
#elif DEV == 3
    { std::istream& in = *static_cast<std::istream*>(vp_istream()); gil::read_image(in, back, tag_t()); }
#else
    gil::read_image(nm, back, tag_t());
#endif
    vp_assert(back.width() == W && back.height() == H, "rt.dimensions_preserved");
    int x = vp_range(0, 7); int y = vp_range(0, 3); vp_assume(x < W && y < H);
    vp_assert(gil::view(back)(x, y) == v(x, y), "rt.pixel_preserved");
}
extern "C" void h_rt(void) {
    int W = vp_param(0), H = vp_param(1);
    bool ok = false;
    try {
#if ORG == 1
        img_t a(W, H); vp_fill(&gil::view(a)(0, 0), (unsigned long)(W * H) * sizeof(pix_t));
        round_trip(gil::view(a), W, H);
#elif ORG == 2
        pimg_t a(W, H); vp_fill(gil::planar_view_get_raw_data(gil::view(a), 0), (unsigned long)(W * H) * sizeof(pix_t));
        round_trip(gil::view(a), W, H);
#elif ORG == 3
        img_t a(W + 2, H + 1); vp_fill(&gil::view(a)(0, 0), (unsigned long)((W + 2) * (H + 1)) * sizeof(pix_t));
        round_trip(gil::subimage_view(gil::view(a), 1, 1, W, H), W, H);
#elif ORG == 4
        img_t a(2 * W, H); vp_fill(&gil::view(a)(0, 0), (unsigned long)(2 * W * H) * sizeof(pix_t));
        round_trip(gil::subsampled_view(gil::view(a), 2, 1), W, H);
#elif ORG == 6
        gil::gray1_image_t a(W, H);
        { auto v = gil::view(a); for (int y = 0; y < H; ++y) for (int x = 0; x < W; ++x) { unsigned char b = vp_nondet_u8(); v(x, y) = gil::gray1_image_t::value_type((unsigned char)(b & 1)); } }
        round_trip(gil::view(a), W, H);
#else
        img_t a(W, H); vp_fill(&gil::view(a)(0, 0), (unsigned long)(W * H) * sizeof(pix_t));
        round_trip(gil::flipped_up_down_view(gil::view(a)), W, H);
#endif
        ok = true;
    } catch (std::ios_base::failure const&) { ok = false; }
    vp_assert(ok, "rt.no_io_error");
}
