// Shared harness machinery: source view factories over symbolic buffers, view transformations with their documented
// coordinate formulas, and pixel-identity predicates.  Used by C01..C04.
#pragma once
#include <boost/gil.hpp>
#include "vp.hpp"
namespace gil = boost::gil;

// ------------------------------------------------------------------------------------------------ pixel identity
// same storage location (not just equal value)
template <class C, class L> bool same_px(gil::pixel<C, L>& a, gil::pixel<C, L>& b) { return &a == &b; }
template <class C, class L> bool same_px(gil::pixel<C, L> const& a, gil::pixel<C, L> const& b) { return &a == &b; }
template <class B, class CR, class L> bool same_px(gil::packed_pixel<B, CR, L>& a, gil::packed_pixel<B, CR, L>& b) { return &a == &b; }
template <class B, class CR, class L> bool same_px(gil::packed_pixel<B, CR, L> const& a, gil::packed_pixel<B, CR, L> const& b) { return &a == &b; }
template <class CR, class CS> bool same_px(gil::planar_pixel_reference<CR, CS> const& a, gil::planar_pixel_reference<CR, CS> const& b) {
    bool r = true;
    for (int i = 0; i < (int)gil::num_channels<gil::planar_pixel_reference<CR, CS>>::value; ++i) r = r && (&a[i] == &b[i]);
    return r;
}
template <class BF, class CB, class L, bool M> bool same_px(gil::bit_aligned_pixel_reference<BF, CB, L, M> const& a, gil::bit_aligned_pixel_reference<BF, CB, L, M> const& b) {
    return a.bit_range().current_byte() == b.bit_range().current_byte() && a.bit_range().bit_offset() == b.bit_range().bit_offset();
}

// ------------------------------------------------------------------------------------------------ buffers
// EXACT: the buffer is a heap object of exactly the size the view needs, so any access outside it is a failed proof obligation
struct vbuf {
    unsigned char* p = nullptr; unsigned long n = 0;
    unsigned char* get(unsigned long bytes) { n = bytes; p = (unsigned char*)vp_buf(bytes); return p; }
    void fill() { vp_fill(p, n); }
    ~vbuf() { if (p) vp_buf_free(p); }
};

// ------------------------------------------------------------------------------------------------ sources
#ifndef VP_MAXDIM
#define VP_MAXDIM 4
#endif
// FIXW/FIXH: concrete view dimensions (a shape parameter of the query) instead of symbolic ones
struct src_base { int w = 0, h = 0; bool preset = false; int fixpad = -1; int padv(int hi) { return fixpad >= 0 ? fixpad : vp_range(0, hi); } void set(int w_, int h_) { w = w_; h = h_; preset = true; } void dims() {
    if (preset) return;
#ifdef FIXW
    w = FIXW; h = FIXH;
#else
    w = vp_range(0, VP_MAXDIM); h = vp_range(0, VP_MAXDIM);
#endif
} };

// interleaved, padded rows
template <class Pixel> struct src_interleaved : src_base {
    using view_t = typename gil::type_from_x_iterator<Pixel*>::view_t;
    static constexpr bool addressable = true;
    vbuf b; long rowbytes = 0;
    view_t make() { dims(); int pad = padv(3); rowbytes = (long)w * (long)sizeof(Pixel) + pad * (long)alignof(Pixel);   // padding in units of the pixel's alignment: a misaligned row is the caller's undefined behaviour, not GIL's
        b.get((unsigned long)(h * rowbytes)); return gil::interleaved_view(w, h, (Pixel*)b.p, rowbytes); }
    static constexpr int nplanes = 1;
    unsigned char* plane(int) { return b.p; } unsigned long plane_size() const { return b.n; }
    // bits of byte i (of plane k) that belong to pixel (sx,sy)
    unsigned char mask_of(int sx, int sy, int k, unsigned long i) const { long o = sy * rowbytes + (long)sx * (long)sizeof(Pixel);
        return ((long)i >= o && (long)i < o + (long)sizeof(Pixel)) ? 0xFF : 0; }
    // bits of byte i that belong to channel c (memory order) of pixel (sx,sy)
    unsigned char chan_mask_of(int sx, int sy, int c, int k, unsigned long i) const { long cs = sizeof(typename gil::channel_type<Pixel>::type);
        long o = sy * rowbytes + (long)sx * (long)sizeof(Pixel) + c * cs; return ((long)i >= o && (long)i < o + cs) ? 0xFF : 0; }
};
using src_rgb8i = src_interleaved<gil::rgb8_pixel_t>;
using src_gray8i = src_interleaved<gil::gray8_pixel_t>;
using src_rgba8i = src_interleaved<gil::rgba8_pixel_t>;
using src_rgb16i = src_interleaved<gil::rgb16_pixel_t>;
using src_rgb32fi = src_interleaved<gil::rgb32f_pixel_t>;
using src_cmyk8i = src_interleaved<gil::cmyk8_pixel_t>;
using rgb565_pixel_t = gil::packed_pixel_type<std::uint16_t, boost::mp11::mp_list_c<unsigned, 5, 6, 5>, gil::rgb_layout_t>::type;
using src_rgb565 = src_interleaved<rgb565_pixel_t>;

// planar rgb8: three planes of exactly h*rowbytes each
struct src_rgb8p : src_base {
    using view_t = gil::rgb8_planar_view_t;
    static constexpr bool addressable = true;
    vbuf r, g, bl; long rowbytes = 0;
    view_t make() { dims(); int pad = padv(2); rowbytes = w + pad; unsigned long n = (unsigned long)(h * rowbytes);
        r.get(n); g.get(n); bl.get(n); return gil::planar_rgb_view(w, h, r.p, g.p, bl.p, rowbytes); }
    static constexpr int nplanes = 3;
    unsigned char* plane(int k) { return k == 0 ? r.p : k == 1 ? g.p : bl.p; } unsigned long plane_size() const { return r.n; }
    unsigned char mask_of(int sx, int sy, int k, unsigned long i) const { return (long)i == sy * rowbytes + sx ? 0xFF : 0; }
    unsigned char chan_mask_of(int sx, int sy, int c, int k, unsigned long i) const { return (k == c && (long)i == sy * rowbytes + sx) ? 0xFF : 0; }
};
// planar rgb16: three planes of 16-bit channels
struct src_rgb16p : src_base {
    using view_t = gil::rgb16_planar_view_t;
    static constexpr bool addressable = true;
    vbuf r, g, bl; long rowbytes = 0;
    view_t make() { dims(); int pad = padv(2); rowbytes = (long)w * 2 + pad * 2; unsigned long n = (unsigned long)(h * rowbytes);
        r.get(n); g.get(n); bl.get(n); return gil::planar_rgb_view(w, h, (std::uint16_t*)r.p, (std::uint16_t*)g.p, (std::uint16_t*)bl.p, rowbytes); }
    static constexpr int nplanes = 3;
    unsigned char* plane(int k) { return k == 0 ? r.p : k == 1 ? g.p : bl.p; } unsigned long plane_size() const { return r.n; }
    unsigned char mask_of(int sx, int sy, int k, unsigned long i) const { long o = sy * rowbytes + (long)sx * 2; return ((long)i >= o && (long)i < o + 2) ? 0xFF : 0; }
    unsigned char chan_mask_of(int sx, int sy, int c, int k, unsigned long i) const { return k == c ? mask_of(sx, sy, k, i) : 0; }
};
// x-step view over gray8 (every xs-th byte)
struct src_gray8step : src_base {
    using view_t = gil::gray8_step_view_t;
    static constexpr bool addressable = true;
    vbuf b; long rowbytes = 0; int xs = 1; int fixxs = -1;   // fixxs > 0: concrete x step
    view_t make() { dims(); xs = fixxs > 0 ? fixxs : vp_range(1, 3); int pad = padv(2);
        rowbytes = (w > 0 ? (long)(w - 1) * xs + 1 : 0) + pad;
        b.get((unsigned long)(h * rowbytes));
        using loc_t = view_t::xy_locator; using xit_t = view_t::x_iterator;
        return view_t(w, h, loc_t(xit_t((gil::gray8_pixel_t*)b.p, xs), rowbytes)); }
    static constexpr int nplanes = 1;
    unsigned char* plane(int) { return b.p; } unsigned long plane_size() const { return b.n; }
    unsigned char mask_of(int sx, int sy, int k, unsigned long i) const { return (long)i == sy * rowbytes + (long)sx * xs ? 0xFF : 0; }
};
// bit-aligned views over a raw buffer: rows padded to whole bytes (+ optional extra), exact-size buffer
template <class Image> struct src_bits : src_base {
    using view_t = typename Image::view_t;
    static constexpr bool addressable = true;
    vbuf b; long rowbits = 0;
    static constexpr int bpp = view_t::reference::bit_size;
    view_t make() { dims(); int pad = padv(1); long rb = ((long)w * bpp + 7) / 8 + pad; rowbits = rb * 8;
        b.get((unsigned long)(h * rb));
        using loc_t = typename view_t::xy_locator; using xit_t = typename view_t::x_iterator;
        return view_t(w, h, loc_t(xit_t(b.p, 0), rowbits)); }
    static constexpr int nplanes = 1;
    unsigned char* plane(int) { return b.p; } unsigned long plane_size() const { return b.n; }
    unsigned char mask_of(int sx, int sy, int k, unsigned long i) const { long lo = sy * rowbits + (long)sx * bpp, hi = lo + bpp; unsigned char m = 0;
        for (int bit = 0; bit < 8; ++bit) { long g = (long)i * 8 + bit; if (g >= lo && g < hi) m |= (unsigned char)(1u << bit); } return m; }
};
using gray1_img = gil::bit_aligned_image1_type<1, gil::gray_layout_t>::type;
using gray2_img = gil::bit_aligned_image1_type<2, gil::gray_layout_t>::type;
using gray4_img = gil::bit_aligned_image1_type<4, gil::gray_layout_t>::type;
using rgb222_img = gil::bit_aligned_image3_type<2, 2, 2, gil::rgb_layout_t>::type;
using bgr232_img = gil::bit_aligned_image3_type<2, 3, 2, gil::bgr_layout_t>::type;
using rgb565b_img = gil::bit_aligned_image3_type<5, 6, 5, gil::rgb_layout_t>::type;
using src_gray1 = src_bits<gray1_img>;
using src_gray2 = src_bits<gray2_img>;
using src_gray4 = src_bits<gray4_img>;
using src_rgb222 = src_bits<rgb222_img>;
using src_bgr232 = src_bits<bgr232_img>;

// dereference adaptor: colour-converted (value semantics, read-only)
struct src_deref : src_base {
    using base_t = gil::rgb8c_view_t;
    using view_t = gil::color_converted_view_type<base_t, gil::gray8_pixel_t>::type;
    static constexpr bool addressable = false;
    vbuf b; base_t base;
    view_t make() { dims(); long rb = (long)w * 3; b.get((unsigned long)(h * rb));
        base = gil::interleaved_view(w, h, (gil::rgb8_pixel_t const*)b.p, rb); return gil::color_converted_view<gil::gray8_pixel_t>(base); }
    // give the source pixel (sx,sy) logged symbolic contents (the rest of the buffer is unconstrained heap)
    void prepare(int sx, int sy) { vp_fill(b.p + (sy * (long)w + sx) * 3, 3); }
};
struct src_deref3 : src_base {
    using base_t = gil::rgb8c_view_t;
    using view_t = gil::color_converted_view_type<base_t, gil::bgr8_pixel_t>::type;
    static constexpr bool addressable = false;
    vbuf b; base_t base;
    view_t make() { dims(); long rb = (long)w * 3; b.get((unsigned long)(h * rb));
        base = gil::interleaved_view(w, h, (gil::rgb8_pixel_t const*)b.p, rb); return gil::color_converted_view<gil::bgr8_pixel_t>(base); }
    void prepare(int sx, int sy) { vp_fill(b.p + (sy * (long)w + sx) * 3, 3); }
};
// virtual locator: the pixel value encodes its coordinates
struct tag_fn {
    using point_t = gil::point_t; using const_t = tag_fn; using value_type = gil::rgb8_pixel_t; using reference = value_type;
    using const_reference = value_type; using argument_type = point_t; using result_type = reference;
    static constexpr bool is_mutable = false;
    int salt = 0;
    result_type operator()(point_t const& p) const { return value_type((unsigned char)(p.x * 7 + salt), (unsigned char)(p.y * 5 + 1), (unsigned char)(p.x + p.y * 16)); }
};
struct src_virtual : src_base {
    using loc_t = gil::virtual_2d_locator<tag_fn, false>;
    using view_t = gil::image_view<loc_t>;
    static constexpr bool addressable = false;
    view_t make() { dims(); tag_fn f; f.salt = vp_range(0, 3); return view_t(w, h, loc_t(gil::point_t(0, 0), gil::point_t(1, 1), f)); }
    void prepare(int, int) {}
};

// ------------------------------------------------------------------------------------------------ transformations
// each: apply(view), output dims from input dims, and the documented map from output coords to input coords
struct xf_id { static constexpr bool swaps = false; void init(int, int) {}
    template <class V> V apply(V const& v) const { return v; }
    int ow(int w, int h) const { return w; } int oh(int w, int h) const { return h; }
    void map(int x, int y, int w, int h, int& sx, int& sy) const { sx = x; sy = y; } };
struct xf_flipud { static constexpr bool swaps = false; void init(int, int) {}
    template <class V> auto apply(V const& v) const -> typename gil::dynamic_y_step_type<V>::type { return gil::flipped_up_down_view(v); }
    int ow(int w, int h) const { return w; } int oh(int w, int h) const { return h; }
    void map(int x, int y, int w, int h, int& sx, int& sy) const { sx = x; sy = h - 1 - y; } };
struct xf_fliplr { static constexpr bool swaps = false; void init(int, int) {}
    template <class V> auto apply(V const& v) const -> typename gil::dynamic_x_step_type<V>::type { return gil::flipped_left_right_view(v); }
    int ow(int w, int h) const { return w; } int oh(int w, int h) const { return h; }
    void map(int x, int y, int w, int h, int& sx, int& sy) const { sx = w - 1 - x; sy = y; } };
struct xf_transposed { static constexpr bool swaps = true; void init(int, int) {}
    template <class V> auto apply(V const& v) const -> typename gil::dynamic_xy_step_transposed_type<V>::type { return gil::transposed_view(v); }
    int ow(int w, int h) const { return h; } int oh(int w, int h) const { return w; }
    void map(int x, int y, int w, int h, int& sx, int& sy) const { sx = y; sy = x; } };
struct xf_rot90cw { static constexpr bool swaps = true; void init(int, int) {}
    template <class V> auto apply(V const& v) const -> typename gil::dynamic_xy_step_transposed_type<V>::type { return gil::rotated90cw_view(v); }
    int ow(int w, int h) const { return h; } int oh(int w, int h) const { return w; }
    void map(int x, int y, int w, int h, int& sx, int& sy) const { sx = y; sy = h - 1 - x; } };
struct xf_rot90ccw { static constexpr bool swaps = true; void init(int, int) {}
    template <class V> auto apply(V const& v) const -> typename gil::dynamic_xy_step_transposed_type<V>::type { return gil::rotated90ccw_view(v); }
    int ow(int w, int h) const { return h; } int oh(int w, int h) const { return w; }
    void map(int x, int y, int w, int h, int& sx, int& sy) const { sx = w - 1 - y; sy = x; } };
struct xf_rot180 { static constexpr bool swaps = false; void init(int, int) {}
    template <class V> auto apply(V const& v) const -> typename gil::dynamic_xy_step_type<V>::type { return gil::rotated180_view(v); }
    int ow(int w, int h) const { return w; } int oh(int w, int h) const { return h; }
    void map(int x, int y, int w, int h, int& sx, int& sy) const { sx = w - 1 - x; sy = h - 1 - y; } };
struct xf_subimage { static constexpr bool swaps = false; int x0 = 0, y0 = 0, dw = 0, dh = 0;
    void init(int w, int h) { x0 = vp_range(0, VP_MAXDIM); y0 = vp_range(0, VP_MAXDIM); dw = vp_range(0, VP_MAXDIM); dh = vp_range(0, VP_MAXDIM);
        vp_assume(x0 <= w && dw <= w - x0 && y0 <= h && dh <= h - y0); }
    template <class V> V apply(V const& v) const { return gil::subimage_view(v, x0, y0, dw, dh); }
    int ow(int w, int h) const { return dw; } int oh(int w, int h) const { return dh; }
    void map(int x, int y, int w, int h, int& sx, int& sy) const { sx = x0 + x; sy = y0 + y; } };
struct xf_subsampled { static constexpr bool swaps = false; int xs = 1, ys = 1;
    void init(int w, int h) { xs = vp_range(1, 3); ys = vp_range(1, 3); }
    template <class V> auto apply(V const& v) const -> typename gil::dynamic_xy_step_type<V>::type { return gil::subsampled_view(v, xs, ys); }
    int ow(int w, int h) const { return (w + xs - 1) / xs; } int oh(int w, int h) const { return (h + ys - 1) / ys; }
    void map(int x, int y, int w, int h, int& sx, int& sy) const { sx = x * xs; sy = y * ys; } };

// symbolic in-range coordinate of a view with dims (w,h); kills the path when the view is empty
static inline void vp_coord(int w, int h, int& x, int& y) { x = vp_range(0, VP_MAXDIM); y = vp_range(0, VP_MAXDIM); vp_assume(x < w && y < h); }
