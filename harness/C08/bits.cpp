// C08: packed and bit-aligned channel / pixel writes change exactly their own bits; bit-aligned iterator arithmetic.
//
// One TU = one type (compile-time -D macros), many extern "C" entry points; numbers that select a channel or a count are
// vp_param()s.  PART selects the family:
//   PART 1  one packed_channel_reference<BF_T,FIRSTBIT,NBITS,true> / packed_dynamic_channel_reference<BF_T,NBITS,true>
//   PART 2  packed_pixel<BF_T, partition SIZES (NCH channels)>: three adjacent pixels, the middle one is written
//   PART 3  bit_aligned_pixel_reference<BF_T, SIZES> at a symbolic start bit 0..7, and bit_aligned_pixel_iterator
//
// Buffers are heap objects of exactly  guard | body | guard  bytes with symbolic contents; the frame predicate is
// "(before ^ after) & ~mask == 0" over EVERY byte (body and guards).  Bit numbering: body bit g is bit (g % 8) of body byte
// (g / 8) -- the numbering GIL documents for packed / bit-aligned pixels (little-endian carrier, bit 0 = LSB of byte 0).
// Reference model of a pixel: channel K occupies the SIZES[K] bits that follow channels 0..K-1 (memory order).
#include <boost/gil.hpp>
#include "vp.hpp"
namespace gil = boost::gil;
namespace mp11 = boost::mp11;

constexpr int GUARD = 8;   // >= sizeof(widest BitField)

template <int BODY> struct gbuf {
    static constexpr int N = GUARD + BODY + GUARD;
    unsigned char* raw; unsigned char before[N];
    gbuf() { raw = (unsigned char*)vp_buf(N); vp_fill(raw, N); snap(); }
    ~gbuf() { vp_buf_free(raw); }
    gbuf(gbuf const&) = delete;
    unsigned char* body() const { return raw + GUARD; }
    void snap() { for (int i = 0; i < N; ++i) before[i] = raw[i]; }
    // no bit of the buffer outside the body bit range [lo,hi) differs from the snapshot
    bool only_changed(long lo, long hi) const {
        unsigned bad = 0;
        for (int i = 0; i < N; ++i) bad |= (unsigned)(before[i] ^ raw[i]) & ~byte_mask(i, lo, hi) & 0xFFu;
        return bad == 0;
    }
    // bits of buffer byte i that lie inside the body bit range [lo,hi): clip the range to the byte's own bits [0,8)
    static unsigned byte_mask(int i, long lo, long hi) {
        long l = lo - ((long)i - GUARD) * 8, h = hi - ((long)i - GUARD) * 8;
        if (l < 0) l = 0; if (h > 8) h = 8;
        if (l >= h) return 0;
        return ((1u << h) - 1u) & ~((1u << l) - 1u);
    }
    bool unchanged() const { return only_changed(0, 0); }
};
// symbolic value in [0, 2^bits - 1], bits <= 32
static inline unsigned long sym_bits(int bits) { unsigned long v = vp_nondet_u64(); vp_assume(v <= (1ul << bits) - 1); return v; }
static inline unsigned long low(unsigned long v, int bits) { return v & ((1ul << bits) - 1); }
using BF = BF_T;

// ================================================================================================ PART 1: one channel
#if PART == 1
using sref_t = gil::packed_channel_reference<BF, FIRSTBIT, NBITS, true>;
using scref_t = gil::packed_channel_reference<BF, FIRSTBIT, NBITS, false>;
using dref_t = gil::packed_dynamic_channel_reference<BF, NBITS, true>;
using dcref_t = gil::packed_dynamic_channel_reference<BF, NBITS, false>;
using int_t = sref_t::integer_t;
using buf_t = gbuf<sizeof(BF)>;
static_assert(FIRSTBIT + NBITS <= 8 * (int)sizeof(BF), "channel must fit the carrier");
// the reference under test: static (first bit = FIRSTBIT) or dynamic (first bit symbolic 0..7, needs NBITS+7 carrier bits).
// FOR_FIRST_BIT(fb) { ... }: dynamic: case split over the symbolic first bit -- inside the body fb is a constant in each unwinding,
// so the shifts and byte counts of the code under test are concrete; the frame is asserted after the split with the symbolic first bit.
#if DYNAMIC
static_assert(NBITS + 7 <= 8 * (int)sizeof(BF), "dynamic reference: channel at any first bit 0..7 must fit the carrier");
#define FOR_FIRST_BIT(fb) for (int fb = 0; fb < 8; ++fb) if (fb == fbs)
static int sym_first_bit() { return vp_range(0, 7); }
static dref_t REF(unsigned char* p, int fb) { return dref_t(p, (unsigned)fb); }
static dcref_t CREF(unsigned char* p, int fb) { return dcref_t(p, (unsigned)fb); }
#else
#define FOR_FIRST_BIT(fb) for (int fb = FIRSTBIT, once_ = 1; once_; once_ = 0)
static int sym_first_bit() { return FIRSTBIT; }
static sref_t REF(unsigned char* p, int) { return sref_t(p); }
static scref_t CREF(unsigned char* p, int) { return scref_t(p); }
#endif
static unsigned long val(sref_t const& r) { return (unsigned long)(int_t)r; }
static unsigned long val(scref_t const& r) { return (unsigned long)(int_t)r; }
static unsigned long val(dref_t const& r) { return (unsigned long)(int_t)r; }
static unsigned long val(dcref_t const& r) { return (unsigned long)(int_t)r; }
extern "C" {
// r = v: read-back and frame
void h_set(void) {
    buf_t b; int fbs = sym_first_bit();
    unsigned long v = sym_bits(NBITS);
    FOR_FIRST_BIT(fb) {
        auto r = REF(b.body(), fb);
        r = (int_t)v;
        vp_assert(val(r) == v, "chan.set_reads_back");
        vp_assert(val(CREF(b.body(), fb)) == v, "chan.set_reads_back_const_ref");
    }
    vp_assert(b.only_changed(fbs, fbs + NBITS), "chan.set_frame");
}
// ++ -- (pre and post), += -= one after the other, each from the (still fully symbolic) state the previous one left:
// stored value is the arithmetic result modulo 2^NBITS, frame
#define ARITH1(name, stmt, expect) { b.snap(); FOR_FIRST_BIT(fb) { auto r = REF(b.body(), fb); unsigned long old = val(r); stmt; \
    vp_assert(val(r) == low((expect), NBITS), "chan." name "_mod_2_pow_bits"); } vp_assert(b.only_changed(fbs, fbs + NBITS), "chan." name "_frame"); }
void h_arith(void) {
    buf_t b; int fbs = sym_first_bit();
    unsigned a = vp_nondet_u16();
    ARITH1("preinc", ++r, old + 1)
    ARITH1("predec", --r, old - 1)
    ARITH1("postinc", r++, old + 1)
    ARITH1("postdec", r--, old - 1)
    ARITH1("add_assign", r += (int)a, old + a)
    ARITH1("sub_assign", r -= (int)a, old - a)
}
// r = r2 (another reference of the same kind over another carrier; mutable, then const source): value copied, frames
void h_assign_ref(void) {
    buf_t b; buf_t c; buf_t d; int fbs = sym_first_bit();
    FOR_FIRST_BIT(fb) {
        auto r = REF(b.body(), fb);
        unsigned long src = val(CREF(c.body(), fb));
        r = REF(c.body(), fb);
        vp_assert(val(r) == src, "chan.assign_ref_value");
    }
    vp_assert(b.only_changed(fbs, fbs + NBITS), "chan.assign_ref_frame");
    vp_assert(c.unchanged(), "chan.assign_ref_source_unchanged");
    b.snap();
    FOR_FIRST_BIT(fb) {
        auto r = REF(b.body(), fb);
        unsigned long src = val(CREF(d.body(), fb));
        r = CREF(d.body(), fb);
        vp_assert(val(r) == src, "chan.assign_cref_value");
    }
    vp_assert(b.only_changed(fbs, fbs + NBITS), "chan.assign_cref_frame");
    vp_assert(d.unchanged(), "chan.assign_cref_source_unchanged");
}
// swap of two channel proxies, of a proxy and a channel value, of a value and a proxy
void h_swap(void) {
    buf_t b; buf_t c; int fbs = sym_first_bit();
    unsigned long v = sym_bits(NBITS);
    FOR_FIRST_BIT(fb) {
        auto r = REF(b.body(), fb); auto s = REF(c.body(), fb);
        unsigned long x = val(r), y = val(s);
        std::swap(r, s);
        vp_assert(val(r) == y && val(s) == x, "chan.swap_refs");
    }
    vp_assert(b.only_changed(fbs, fbs + NBITS) && c.only_changed(fbs, fbs + NBITS), "chan.swap_refs_frame");
    b.snap(); c.snap();
    FOR_FIRST_BIT(fb) {
        auto r = REF(b.body(), fb);
        typename sref_t::value_type value((int_t)v);
        unsigned long x = val(r);
        std::swap(r, value);
        vp_assert(val(r) == v && (unsigned long)(int_t)value == x, "chan.swap_ref_value");
        std::swap(value, r);
        vp_assert(val(r) == x && (unsigned long)(int_t)value == v, "chan.swap_value_ref");
    }
    vp_assert(b.only_changed(fbs, fbs + NBITS) && c.unchanged(), "chan.swap_with_value_frame");
}
#if CROSS
// static reference <- dynamic reference and dynamic <- static (same carrier type, same width)
void h_cross(void) {
    buf_t b; buf_t c; int fbs = vp_range(0, 7); int dir = vp_param(0);
    for (int fb = 0; fb < 8; ++fb) if (fb == fbs) {
        sref_t s(b.body()); dref_t d(c.body(), (unsigned)fb);
        unsigned long x = val(s), y = val(d);
        if (dir == 0) { s = d; vp_assert(val(s) == y, "chan.static_from_dynamic"); }
        else { d = s; vp_assert(val(d) == x, "chan.dynamic_from_static"); }
    }
    if (dir == 0) vp_assert(b.only_changed(FIRSTBIT, FIRSTBIT + NBITS) && c.unchanged(), "chan.static_from_dynamic_frame");
    else vp_assert(c.only_changed(fbs, fbs + NBITS) && b.unchanged(), "chan.dynamic_from_static_frame");
}
#endif
}
#endif

// ================================================================================================ pixels: common
#if PART == 2 || PART == 3
constexpr int SZ[] = { SIZES };
constexpr int NCHAN = sizeof(SZ) / sizeof(SZ[0]);
constexpr int first_bit_of(int k) { return k == 0 ? 0 : first_bit_of(k - 1) + SZ[k - 1]; }
constexpr int PXBITS = first_bit_of(NCHAN);
static int fb_of(int k) { int s = 0; for (int i = 0; i < k; ++i) s += SZ[i]; return s; }
template <int> struct ctag {};
template <class I> using ctag_of = ctag<I::value>;
#ifdef LAYOUT
using layout_t = LAYOUT;
#else
using layout_t = gil::layout<mp11::mp_transform<ctag_of, mp11::mp_iota_c<NCHAN>>>;
#endif
using sizes_t = mp11::mp_list_c<unsigned, SIZES>;
using value_t = gil::packed_pixel_type<BF, sizes_t, layout_t>::type;
// run-time channel index -> compile-time at_c<K> (the index is a concrete vp_param of the query)
template <int K, bool OK = (K < NCHAN)> struct ch {
    template <class P> static unsigned long get(P& p) { return (unsigned long)gil::at_c<K>(p); }
    template <class P> static void set(P& p, unsigned long v) { gil::at_c<K>(p) = (typename gil::kth_element_type<value_t, K>::type::integer_t)v; }
    template <class P> static void arith(P& p, int op, unsigned a) { auto r = gil::at_c<K>(p);
        if (op == 0) ++r; if (op == 1) --r; if (op == 2) r++; if (op == 3) r--; if (op == 4) r += (int)a; if (op == 5) r -= (int)a; }
    template <class P, class Q> static void swp(P& p, Q& q) { std::swap(gil::at_c<K>(p), gil::at_c<K>(q)); }
};
template <int K> struct ch<K, false> {
    template <class P> static unsigned long get(P&) { return 0; }
    template <class P> static void set(P&, unsigned long) {}
    template <class P> static void arith(P&, int, unsigned) {}
    template <class P, class Q> static void swp(P&, Q&) {}
};
#define DISPATCH(k, call) switch (k) { case 0: return ch<0>::call; case 1: return ch<1>::call; case 2: return ch<2>::call; case 3: return ch<3>::call; \
    case 4: return ch<4>::call; case 5: return ch<5>::call; case 6: return ch<6>::call; default: return ch<7>::call; }
template <class P> static unsigned long get_ch(P& p, int k) { DISPATCH(k, get(p)) }
template <class P> static void set_ch(P& p, int k, unsigned long v) { DISPATCH(k, set(p, v)) }
template <class P> static void arith_ch(P& p, int k, int op, unsigned a) { DISPATCH(k, arith(p, op, a)) }
template <class P, class Q> static void swap_ch(P& p, Q& q, int k) { DISPATCH(k, swp(p, q)) }
// a pixel value with symbolic contents (all carrier bits symbolic, including unused ones)
static value_t sym_value() { BF bits = (BF)vp_nondet_u64(); return value_t(bits); }
// all channels of p equal those of q / the recorded ones
template <class P> static void record(P& p, unsigned long* out) { for (int k = 0; k < NCHAN; ++k) out[k] = get_ch(p, k); }
template <class P> static bool same_as(P& p, unsigned long const* rec, int except = -1) { bool ok = true; for (int k = 0; k < NCHAN; ++k) if (k != except) ok = ok && get_ch(p, k) == rec[k]; return ok; }
#endif

// ================================================================================================ PART 2: packed_pixel
#if PART == 2
static_assert(PXBITS <= 8 * (int)sizeof(BF), "partition must fit the carrier");
static_assert(sizeof(value_t) == sizeof(BF), "packed pixel is its carrier");
constexpr int PB = 8 * (int)sizeof(BF);           // bits per pixel slot
using buf_t = gbuf<3 * sizeof(BF)>;               // neighbour | pixel under test | neighbour
// a compatible packed pixel with another carrier type (assignment goes through static_copy, channel by channel); OTHER=0 when the
// partition fits no second carrier type (64-bit carrier with more than 32 pixel bits)
#if OTHER
using BF2 = std::conditional<sizeof(BF) == 8, std::uint32_t, std::uint64_t>::type;
using other_t = gil::packed_pixel_type<BF2, sizes_t, layout_t>::type;
static_assert(PXBITS <= 8 * (int)sizeof(BF2), "partition must fit the other carrier");
#endif
extern "C" {
// at_c<K>(px) = v
void h_px_set(void) {
    buf_t b; value_t* px = (value_t*)b.body(); int k = vp_param(0);
    unsigned long rec[8]; record(px[1], rec);
    unsigned long v = sym_bits(SZ[k]);
    set_ch(px[1], k, v);
    vp_assert(get_ch(px[1], k) == v, "ppx.set_reads_back");
    vp_assert(same_as(px[1], rec, k), "ppx.set_other_channels_unchanged");
    vp_assert(b.only_changed(PB + fb_of(k), PB + fb_of(k) + SZ[k]), "ppx.set_frame");
}
// ++ -- (pre/post) += -= on the proxy of channel K, one after the other (each from the still symbolic state the previous one left)
#define ARITH_PX(name, op, expect) { b.snap(); record(px[1], rec); unsigned long old = rec[k]; arith_ch(px[1], k, op, a); \
    vp_assert(get_ch(px[1], k) == low((expect), SZ[k]), "ppx." name "_mod_2_pow_bits"); vp_assert(same_as(px[1], rec, k), "ppx." name "_other_channels_unchanged"); \
    vp_assert(b.only_changed(PB + fb_of(k), PB + fb_of(k) + SZ[k]), "ppx." name "_frame"); }
void h_px_arith(void) {
    buf_t b; value_t* px = (value_t*)b.body(); int k = vp_param(0);
    unsigned long rec[8];
    unsigned a = vp_nondet_u16();
    ARITH_PX("preinc", 0, old + 1)
    ARITH_PX("predec", 1, old - 1)
    ARITH_PX("postinc", 2, old + 1)
    ARITH_PX("postdec", 3, old - 1)
    ARITH_PX("add_assign", 4, old + a)
    ARITH_PX("sub_assign", 5, old - a)
}
#if OTHER
// whole-pixel assignment from a compatible pixel of another type: every channel copied, unused carrier bits, neighbours, guards kept
void h_px_assign_other(void) {
    buf_t b; value_t* px = (value_t*)b.body();
    BF2 bits = (BF2)vp_nondet_u64(); other_t q(bits);
    unsigned long rec[8]; record(q, rec);
    px[1] = q;
    vp_assert(same_as(px[1], rec), "ppx.assign_channels");
    vp_assert(px[1] == q, "ppx.assign_equal");
    vp_assert(b.only_changed(PB, PB + PXBITS), "ppx.assign_frame");
}
// converting construction in place of the same
void h_px_construct_other(void) {
    BF2 bits = (BF2)vp_nondet_u64(); other_t q(bits);
    unsigned long rec[8]; record(q, rec);
    value_t p(q);
    vp_assert(same_as(p, rec), "ppx.construct_channels");
}
#endif
// whole-pixel assignment from a value of the same type (the value type's own copy assignment: the pixel owns its carrier, so the
// frame is the carrier of the pixel under test; neighbours and guards must not change)
void h_px_assign_same(void) {
    buf_t b; value_t* px = (value_t*)b.body();
    value_t q = sym_value();
    unsigned long rec[8]; record(q, rec);
    px[1] = q;
    vp_assert(same_as(px[1], rec), "ppx.assign_same_channels");
    vp_assert(px[1] == q, "ppx.assign_same_equal");
    vp_assert(b.only_changed(PB, 2 * PB), "ppx.assign_same_frame");
}
// swap of channel K between the pixel under test and a pixel in another buffer; swap of whole pixels
void h_px_swap(void) {
    buf_t b; buf_t c; value_t* px = (value_t*)b.body(); value_t* qx = (value_t*)c.body(); int k = vp_param(0);
    unsigned long rp[8], rq[8]; record(px[1], rp); record(qx[1], rq);
    if (k < NCHAN) {
        swap_ch(px[1], qx[1], k);
        vp_assert(get_ch(px[1], k) == rq[k] && get_ch(qx[1], k) == rp[k], "ppx.swap_channel");
        vp_assert(same_as(px[1], rp, k) && same_as(qx[1], rq, k), "ppx.swap_channel_others_unchanged");
        vp_assert(b.only_changed(PB + fb_of(k), PB + fb_of(k) + SZ[k]) && c.only_changed(PB + fb_of(k), PB + fb_of(k) + SZ[k]), "ppx.swap_channel_frame");
    } else {
        std::swap(px[1], qx[1]);
        vp_assert(same_as(px[1], rq) && same_as(qx[1], rp), "ppx.swap_pixels");
        vp_assert(b.only_changed(PB, 2 * PB) && c.only_changed(PB, 2 * PB), "ppx.swap_pixels_frame");
    }
}
}
#endif

// ================================================================================================ PART 3: bit-aligned
#if PART == 3
static_assert(PXBITS + 7 <= 8 * (int)sizeof(BF), "bit-aligned reference: BitField must hold the pixel at any start bit 0..7");
using ref_t = gil::bit_aligned_pixel_reference<BF, sizes_t, layout_t, true>;
using cref_t = gil::bit_aligned_pixel_reference<BF, sizes_t, layout_t, false>;
using it_t = gil::bit_aligned_pixel_iterator<ref_t>;
constexpr int PXBYTES = (PXBITS + 7) / 8;
// body: room for one pixel before and NPIX pixels from the start position (start byte = PXBYTES, start bit symbolic 0..7)
#ifndef NPIX
#define NPIX 3
#endif
constexpr int BODY = PXBYTES + (7 + NPIX * PXBITS + 7) / 8 + PXBYTES;
constexpr long START = 8L * PXBYTES;          // body bit of start bit 0
using buf_t = gbuf<BODY>;
// reference to the pixel that starts at body bit g (harness-side addressing, independent of the iterator)
static ref_t ref_at(buf_t const& b, long g) { return ref_t(b.body() + g / 8, (int)(g % 8)); }
static cref_t cref_at(buf_t const& b, long g) { return cref_t(b.body() + g / 8, (int)(g % 8)); }
// Case split over the symbolic start bit(s): inside the body the start bit is a constant in each unwinding, so every pointer, shift
// and byte count of the code under test is concrete (eight guarded concrete copies instead of one copy full of symbolic pointer
// offsets; a 64-way split over two symbolic start bits cost 100-350 s in symex, so the start bit of a second, source reference
// is a concrete vp_param).  The frame predicates are asserted after the split, with the symbolic start bit.
#define SPLIT8(sym, cb) for (int cb = 0; cb < 8; ++cb) if (cb == (sym))
extern "C" {
// at_c<K>(ref) = v at any start bit
void h_ref_set(void) {
    buf_t b; int bit = vp_range(0, 7); int k = vp_param(0);
    unsigned long v = sym_bits(SZ[k]);
    SPLIT8(bit, cb) {
        long g = START + cb;
        ref_t const r = ref_at(b, g); ref_t const prev = ref_at(b, g - PXBITS); ref_t const next = ref_at(b, g + PXBITS);
        unsigned long rec[8], rprev[8], rnext[8]; record(r, rec); record(prev, rprev); record(next, rnext);
        set_ch(r, k, v);
        vp_assert(get_ch(r, k) == v, "bref.set_reads_back");
        cref_t const cr = cref_at(b, g);
        vp_assert(get_ch(cr, k) == v, "bref.set_reads_back_const_ref");
        vp_assert(same_as(r, rec, k), "bref.set_other_channels_unchanged");
        vp_assert(same_as(prev, rprev) && same_as(next, rnext), "bref.set_neighbour_pixels_unchanged");
    }
    long g = START + bit;
    vp_assert(b.only_changed(g + fb_of(k), g + fb_of(k) + SZ[k]), "bref.set_frame");
}
// one of ++ -- (pre: op 0,1; post: 2,3) += -= (4,5) on the proxy of channel K = vp_param(0), op = vp_param(1)
void h_ref_arith(void) {
    buf_t b; int bit = vp_range(0, 7); int k = vp_param(0); int op = vp_param(1);
    unsigned a = vp_nondet_u16();
    SPLIT8(bit, cb) {
        ref_t const r = ref_at(b, START + cb);
        unsigned long rec[8]; record(r, rec);
        arith_ch(r, k, op, a);
        unsigned long want = (op == 0 || op == 2) ? rec[k] + 1 : (op == 1 || op == 3) ? rec[k] - 1 : op == 4 ? rec[k] + a : rec[k] - a;
        vp_assert(get_ch(r, k) == low(want, SZ[k]), "bref.arith_mod_2_pow_bits");
        vp_assert(same_as(r, rec, k), "bref.arith_other_channels_unchanged");
    }
    long g = START + bit;
    vp_assert(b.only_changed(g + fb_of(k), g + fb_of(k) + SZ[k]), "bref.arith_frame");
}
// whole-pixel assignment, op = vp_param(0): 0: ref = value, 1: ref = ref at start bit vp_param(1) of another buffer, 2: ref = const ref,
// 3: value = ref, 4: value constructed from ref
void h_ref_assign(void) {
    buf_t b; buf_t c; int bit = vp_range(0, 7); int sbit = vp_param(1); int op = vp_param(0);
    value_t q0 = sym_value();
    SPLIT8(bit, cb) {
        long g = START + cb, gs = START + sbit;
        ref_t const r = ref_at(b, g);
        unsigned long rec[8];
        if (op == 0) { value_t q = q0; record(q, rec); r = q; vp_assert(r == q, "bref.assign_value_equal"); vp_assert(same_as(r, rec), "bref.assign_value_channels"); }
        if (op == 1) { ref_t const s = ref_at(c, gs); record(s, rec); r = s; vp_assert(r == s, "bref.assign_ref_equal"); vp_assert(same_as(r, rec), "bref.assign_ref_channels"); }
        if (op == 2) { cref_t const s = cref_at(c, gs); record(s, rec); r = s; vp_assert(r == s, "bref.assign_cref_equal"); vp_assert(same_as(r, rec), "bref.assign_cref_channels"); }
        if (op == 3) { value_t q = q0; record(r, rec); q = r; vp_assert(same_as(q, rec), "bref.value_from_ref_channels"); vp_assert(q == r, "bref.value_from_ref_equal"); }
        if (op == 4) { record(r, rec); value_t q(r); vp_assert(same_as(q, rec), "bref.value_constructed_from_ref"); }
    }
    long g = START + bit;
    if (op <= 2) vp_assert(b.only_changed(g, g + PXBITS), "bref.assign_frame");
    else vp_assert(b.unchanged(), "bref.read_leaves_source_unchanged");
    vp_assert(c.unchanged(), "bref.assign_source_unchanged");
}
// op = vp_param(0): 0: swap(ref, ref), 1: swap(ref, value) then swap(value, ref), 10+K: swap of the proxies of channel K;
// the second reference starts at the concrete bit vp_param(1) of another buffer
void h_ref_swap(void) {
    buf_t b; buf_t c; int bit = vp_range(0, 7); int sbit = vp_param(1); int op = vp_param(0);
    value_t q0 = sym_value();
    int k = op >= 10 ? op - 10 : 0;
    SPLIT8(bit, cb) {
        long g = START + cb, gs = START + sbit;
        ref_t const r = ref_at(b, g); ref_t const s = ref_at(c, gs);
        unsigned long rr[8], rs[8], rq[8]; record(r, rr); record(s, rs);
        value_t q = q0; record(q, rq);
        if (op == 0) { std::swap(r, s); vp_assert(same_as(r, rs) && same_as(s, rr), "bref.swap_refs"); }
        if (op == 1) { std::swap(r, q); vp_assert(same_as(r, rq) && same_as(q, rr), "bref.swap_ref_value");
                       std::swap(q, r); vp_assert(same_as(r, rr) && same_as(q, rq), "bref.swap_value_ref"); }
        if (op >= 10) { swap_ch(r, s, k);
            vp_assert(get_ch(r, k) == rs[k] && get_ch(s, k) == rr[k], "bref.swap_channel");
            vp_assert(same_as(r, rr, k) && same_as(s, rs, k), "bref.swap_channel_others_unchanged"); }
    }
    long g = START + bit, gs = START + sbit;
    if (op == 0) vp_assert(b.only_changed(g, g + PXBITS) && c.only_changed(gs, gs + PXBITS), "bref.swap_refs_frame");
    if (op == 1) vp_assert(b.only_changed(g, g + PXBITS) && c.unchanged(), "bref.swap_with_value_frame");
    if (op >= 10) vp_assert(b.only_changed(g + fb_of(k), g + fb_of(k) + SZ[k]) && c.only_changed(gs + fb_of(k), gs + fb_of(k) + SZ[k]), "bref.swap_channel_frame");
}
// std::fill through bit-aligned iterators: n = vp_param(0) <= NPIX pixels from a symbolic start bit
void h_it_fill(void) {
    buf_t b; int bit = vp_range(0, 7); int n = vp_param(0);
    value_t q = sym_value();
    SPLIT8(bit, cb) {
        long g = START + cb;
        it_t first(b.body() + g / 8, (int)(g % 8));
        unsigned long rq[8]; record(q, rq);
        std::fill(first, first + n, q);
        bool ok = true;
        for (int i = 0; i < n; ++i) { ref_t const r = ref_at(b, g + (long)i * PXBITS); ok = ok && same_as(r, rq); }
        vp_assert(ok, "bit.fill_values");
    }
    long g = START + bit;
    vp_assert(b.only_changed(g, g + (long)n * PXBITS), "bit.fill_frame");
}
// std::copy of n = vp_param(0) pixels from start bit vp_param(1) (concrete) of one buffer to a symbolic start bit of another
void h_it_copy(void) {
    buf_t b; buf_t c; int bit = vp_range(0, 7); int sbit = vp_param(1); int n = vp_param(0);
    SPLIT8(bit, cb) {
        long g = START + cb, gs = START + sbit;
        it_t src(c.body() + gs / 8, (int)(gs % 8)); it_t dst(b.body() + g / 8, (int)(g % 8));
        unsigned long rs[NPIX][8];
        for (int i = 0; i < n; ++i) { ref_t const s = ref_at(c, gs + (long)i * PXBITS); record(s, rs[i]); }
        it_t end = std::copy(src, src + n, dst);
        bool ok = true;
        for (int i = 0; i < n; ++i) { ref_t const r = ref_at(b, g + (long)i * PXBITS); ok = ok && same_as(r, rs[i]); }
        vp_assert(ok, "bit.copy_values");
        long ge = g + (long)n * PXBITS;
        vp_assert(end.bit_range().current_byte() == b.body() + ge / 8 && end.bit_range().bit_offset() == (int)(ge % 8), "bit.copy_returns_end");
    }
    long g = START + bit;
    vp_assert(b.only_changed(g, g + (long)n * PXBITS), "bit.copy_frame");
    vp_assert(c.unchanged(), "bit.copy_source_unchanged");
}
// iterator laws from any byte and bit offset, n in [-16,16] symbolic.  The buffer is only an address space here (no dereference).
void h_it_laws(void) {
    constexpr long SPAN = 16L * PXBITS;                       // bits reachable on each side
    constexpr long NB = (2 * SPAN + 8 * 4 + 16 + 7) / 8;
    unsigned char* base = (unsigned char*)vp_buf(NB);
    int byte = vp_range(0, 3); int bit = vp_range(0, 7); int n = vp_range(-16, 16);
    long g = SPAN + 8L * byte + bit;                          // global bit of the start position, >= 16 pixels from either end
    it_t it(base + g / 8, (int)(g % 8));
    it_t jt = it + n;
    long gj = g + (long)n * PXBITS;
    vp_assert(jt.bit_range().bit_offset() >= 0 && jt.bit_range().bit_offset() < 8, "it.bit_offset_normalised");
    vp_assert(jt.bit_range().current_byte() == base + gj / 8 && jt.bit_range().bit_offset() == (int)(gj % 8), "it.advance_position");
    it_t back = jt + (-n);
    vp_assert(back.bit_range().current_byte() == it.bit_range().current_byte() && back.bit_range().bit_offset() == it.bit_range().bit_offset(), "it.advance_roundtrip");
    vp_assert(back == it, "it.advance_roundtrip_equal");
    it_t kt = jt; kt -= n;
    vp_assert(kt == it, "it.minus_assign_roundtrip");
    vp_assert(jt - it == n, "it.distance_forward");
    vp_assert(it - jt == -n, "it.distance_backward");
    vp_assert((jt == it) == (n == 0), "it.equal_iff_zero_distance");
    vp_assert((it < jt) == (n > 0), "it.less_iff_positive_distance");
    it_t inc = jt; ++inc; it_t dec = jt; --dec;
    vp_assert(inc - jt == 1 && jt - dec == 1, "it.increment_decrement_distance");
    vp_assert(inc == jt + 1 && dec == jt - 1, "it.increment_is_advance_one");
    it_t r1 = inc; --r1; it_t r2 = dec; ++r2;
    vp_assert(r1 == jt && r2 == jt, "it.increment_decrement_inverse");
    ref_t const via_index = it[n];
    vp_assert(via_index.bit_range().current_byte() == jt.bit_range().current_byte() && via_index.bit_range().bit_offset() == jt.bit_range().bit_offset(), "it.index_is_advance");
    vp_assert(gil::memunit_distance(it, jt) == (long)n * PXBITS && gil::memunit_step(it) == PXBITS, "it.memunit_distance");
    it_t mt = gil::memunit_advanced(it, (long)n * PXBITS);
    vp_assert(mt == jt, "it.memunit_advanced");
    vp_buf_free(base);
}
}
#endif
