// C19: std-container histogram fillers (extension/histogram/std.hpp) for std::vector and std::array, and the container-free helpers
// of gil::histogram.
// Compile-time shape: C19_SRC (source view kind), C19_NBINS (std::array size).
// Run-time-constant shape (vp_param): 0,1 = width,height (<= 2x2); 2 = accumulate (0/1); 3 = size of the container's previous contents
// (vector only); 4 = concrete position of the one previous bin with a symbolic count; 5 = number of symbolic low bits per channel byte
// (8 = fully symbolic), 6 = seed of the concrete upper bits.
// Symbolic: pixel contents, probed bin k, previous count.
#include "views.hpp"
#include <boost/gil/extension/histogram/std.hpp>
#include <vector>
#include <array>
#include <tuple>
namespace gil = boost::gil;
#ifndef C19_SRC
#define C19_SRC src_gray8i
#endif
#ifndef C19_NBINS
#define C19_NBINS 256
#endif
using src_gray16i = src_interleaved<gil::gray16_pixel_t>;
using SRC = C19_SRC;
using view_t = SRC::view_t;
using channel_t = gil::channel_type<view_t>::type;
using gray_px_t = gil::pixel<channel_t, gil::gray_layout_t>;
constexpr long MAXV = (long)(std::numeric_limits<channel_t>::max)();   // 255 / 65535
#ifndef C19_BIN_T
#define C19_BIN_T int
#endif
using bin_t = C19_BIN_T;   // bin (container value) type
constexpr int PREV_BASE = 3;   // every previous bin holds 3, except the one at vp_param(4) which holds a symbolic count

static view_t make_src(SRC& s, int W, int H) {
    s.set(W, H); s.fixpad = 1;
    view_t v = s.make();
    for (int k = 0; k < SRC::nplanes; ++k) vp_fill(s.plane(k), s.plane_size());
    // stratification (vp_param 5 = number of symbolic low bits per channel byte, 8 = fully symbolic; vp_param 6 = seed of the concrete
    // upper bits): summing all 256 bins of a histogram of fully symbolic pixels is a counting problem no SAT back end decided in 300 s
    int nb = vp_param(5), seed = vp_param(6);
    if (nb < 8) {
        unsigned char low = (unsigned char)((1u << nb) - 1u);
        for (int k = 0; k < SRC::nplanes; ++k) for (unsigned long j = 0; j < s.plane_size(); ++j) {
            unsigned char hi = (unsigned char)((seed * 53 + (int)j * 89 + k * 29 + ((seed + (int)j) / 3) * 131) & 0xff);
            s.plane(k)[j] = (unsigned char)((s.plane(k)[j] & low) | (hi & (unsigned char)~low));
        }
    }
    return v;
}
// the channel value the std fillers bin: the pixel colour-converted to gray (identity for gray sources)
template <class V> static long gray_of(V const& v, int x, int y) { gray_px_t g; gil::color_convert(v(x, y), g); return (long)gil::at_c<0>(g); }
// number of pixels whose bin is k, bin(p) = floor(p * (nbins-1) / max) (vector: nbins == max+1, bin == value)
template <class V> static int count_bin(V const& v, int W, int H, int k, int nbins) {
    int c = 0;
    for (int y = 0; y < H; ++y) for (int x = 0; x < W; ++x) if (gray_of(v, x, y) * (nbins - 1) / MAXV == k) ++c;
    return c;
}

// ---------------------------------------------------------------------------------------------- std::vector
extern "C" void h_vec_fill(void) {
    int W = vp_param(0), H = vp_param(1); bool acc = vp_param(2) != 0; int prev_n = vp_param(3), prev_k = vp_param(4);
    SRC s; view_t v = make_src(s, W, H);
    int prev_c = vp_range(0, 100);
    std::vector<bin_t> hist((std::size_t)prev_n, PREV_BASE);
    if (prev_k >= 0 && prev_k < prev_n) hist[prev_k] = prev_c;
    gil::fill_histogram(v, hist, acc);
    vp_assert(hist.size() == 256, "vec.one_bin_per_channel_value");
    int k = vp_range(0, 255);
    int before = (acc && k < prev_n) ? (k == prev_k ? prev_c : PREV_BASE) : 0;
    vp_assert(hist[k] == before + count_bin(v, W, H, k, 256), "vec.bin_counts_pixels_with_that_value_accumulate_adds_else_replaces");
}
extern "C" void h_vec_sum(void) {
    int W = vp_param(0), H = vp_param(1); bool acc = vp_param(2) != 0; int prev_n = vp_param(3), prev_k = vp_param(4);
    SRC s; view_t v = make_src(s, W, H);
    int prev_c = vp_range(0, 100);
    std::vector<bin_t> hist((std::size_t)prev_n, PREV_BASE);
    if (prev_k >= 0 && prev_k < prev_n) hist[prev_k] = prev_c;
    gil::fill_histogram(v, hist, acc);
    long sum = 0; for (std::size_t i = 0; i < hist.size(); ++i) sum += hist[i];
    int kept = prev_n < 256 ? prev_n : 256;
    long before = acc ? (long)PREV_BASE * kept + ((prev_k >= 0 && prev_k < kept) ? prev_c - PREV_BASE : 0) : 0;
    vp_assert(sum == before + (long)W * H, "vec.sum_of_bins_equals_number_of_pixels");
}
// cumulative of a filled histogram: monotone, c[k] == number of pixels with value <= k, last == total
extern "C" void h_vec_cumulative(void) {
    int W = vp_param(0), H = vp_param(1);
    SRC s; view_t v = make_src(s, W, H);
    std::vector<bin_t> hist;
    gil::fill_histogram(v, hist);
    std::vector<bin_t> cum = gil::cumulative_histogram(hist);
    vp_assert(cum.size() == hist.size() && cum.size() == 256, "vec.cumulative_same_size");
    vp_assert(cum[255] == W * H, "vec.cumulative_last_equals_total");
    int k = vp_range(0, 254);
    vp_assert(cum[k] <= cum[k + 1], "vec.cumulative_monotone");
    int le = 0; for (int y = 0; y < H; ++y) for (int x = 0; x < W; ++x) if (gray_of(v, x, y) <= k) ++le;
    vp_assert(cum[k] == le, "vec.cumulative_counts_pixels_up_to_bin");
}
// cumulative of an arbitrary small histogram (size vp_param(0)) with symbolic non-negative counts
extern "C" void h_vec_cumulative_any(void) {
    int n = vp_param(0);
    std::vector<bin_t> hist((std::size_t)n);
    for (int i = 0; i < n; ++i) { int c = vp_range(0, 100000); hist[i] = c; }
    std::vector<bin_t> cum = gil::cumulative_histogram(hist);
    vp_assert((int)cum.size() == n, "vec.cumulative_any_same_size");
    if (n > 0) {
        long total = 0; for (int i = 0; i < n; ++i) total += hist[i];
        vp_assert(cum[n - 1] == total, "vec.cumulative_any_last_equals_total");
        int k = vp_range(0, 7); vp_assume(k < n);
        long pre = 0; for (int i = 0; i < n; ++i) if (i <= k) pre += hist[i];
        vp_assert(cum[k] == pre, "vec.cumulative_any_prefix_sum");
        if (k + 1 < n) vp_assert(cum[k] <= cum[k + 1], "vec.cumulative_any_monotone");
    }
}

// ---------------------------------------------------------------------------------------------- std::array
using arr_t = std::array<bin_t, C19_NBINS>;
static void arr_prev(arr_t& a, int prev_k, int prev_c) { for (int i = 0; i < C19_NBINS; ++i) a[i] = PREV_BASE; if (prev_k >= 0 && prev_k < C19_NBINS) a[prev_k] = prev_c; }
extern "C" void h_arr_fill(void) {
    int W = vp_param(0), H = vp_param(1); bool acc = vp_param(2) != 0; int prev_k = vp_param(4);
    SRC s; view_t v = make_src(s, W, H);
    int prev_c = vp_range(0, 100);
    arr_t hist; arr_prev(hist, prev_k, prev_c);
    gil::fill_histogram(v, hist, acc);
    int k = vp_range(0, C19_NBINS - 1);
    int before = acc ? (k == prev_k ? prev_c : PREV_BASE) : 0;
    vp_assert(hist[k] == before + count_bin(v, W, H, k, C19_NBINS), "arr.bin_counts_pixels_scaled_to_that_bin_accumulate_adds_else_replaces");
}
extern "C" void h_arr_sum(void) {
    int W = vp_param(0), H = vp_param(1); bool acc = vp_param(2) != 0; int prev_k = vp_param(4);
    SRC s; view_t v = make_src(s, W, H);
    int prev_c = vp_range(0, 100);
    arr_t hist; arr_prev(hist, prev_k, prev_c);
    gil::fill_histogram(v, hist, acc);
    long sum = 0; for (int i = 0; i < C19_NBINS; ++i) sum += hist[i];
    long before = acc ? (long)PREV_BASE * C19_NBINS + ((prev_k >= 0 && prev_k < C19_NBINS) ? prev_c - PREV_BASE : 0) : 0;
    vp_assert(sum == before + (long)W * H, "arr.sum_of_bins_equals_number_of_pixels");
}
extern "C" void h_arr_cumulative(void) {
    int W = vp_param(0), H = vp_param(1);
    SRC s; view_t v = make_src(s, W, H);
    arr_t hist;
    gil::fill_histogram(v, hist);
    arr_t cum = gil::cumulative_histogram(hist);
    vp_assert(cum[C19_NBINS - 1] == W * H, "arr.cumulative_last_equals_total");
    if (C19_NBINS > 1) {
        int k = vp_range(0, C19_NBINS - 2);
        vp_assert(cum[k] <= cum[k + 1], "arr.cumulative_monotone");
        int le = 0; for (int y = 0; y < H; ++y) for (int x = 0; x < W; ++x) if (gray_of(v, x, y) * (C19_NBINS - 1) / MAXV <= k) ++le;
        vp_assert(cum[k] == le, "arr.cumulative_counts_pixels_up_to_bin");
    }
}
// vector and array<256> filled from the same view agree bin by bin, and so do their cumulative histograms
extern "C" void h_agree(void) {
    int W = vp_param(0), H = vp_param(1);
    SRC s; view_t v = make_src(s, W, H);
    std::vector<bin_t> hv; std::array<bin_t, 256> ha;
    gil::fill_histogram(v, hv); gil::fill_histogram(v, ha);
    int k = vp_range(0, 255);
    vp_assert(hv.size() == ha.size(), "agree.vector_and_array_same_number_of_bins");
    vp_assert(hv[k] == ha[k], "agree.vector_and_array_same_bin_counts");
    std::vector<bin_t> cv = gil::cumulative_histogram(hv); std::array<bin_t, 256> ca = gil::cumulative_histogram(ha);
    vp_assert(cv[k] == ca[k], "agree.vector_and_array_same_cumulative");
}
