// C19: gil::histogram (sparse, std::unordered_map underneath): container-free helpers (quick tier) and the attempt at
// fill + sum + 1-D cumulative on <= 2 symbolic pixels (thorough tier, needs the _Prime_rehash_policy model rt/rt_hash.c).
// Run-time-constant shape (vp_param): 0,1 = width,height; 2 = bin width; 3 = accumulate; 4 = number of symbolic low bits per byte, 5 = seed; 6 = previous contents (0/1).
#include "views.hpp"
#include <boost/gil/histogram.hpp>
#include <tuple>
namespace gil = boost::gil;

// ---------------------------------------------------------------------------------------------- helpers that never touch the container
extern "C" void h_key_from_pixel(void) {
    gil::rgb8_pixel_t p; vp_fill(&p, sizeof p);
    gil::histogram<int, int, int> h3;
    vp_assert(h3.key_from_pixel(p) == std::make_tuple((int)p[0], (int)p[1], (int)p[2]), "key.from_pixel_all_channels_in_order");
    gil::histogram<int, int> h2;
    vp_assert((h2.key_from_pixel<2, 0>(p)) == std::make_tuple((int)p[2], (int)p[0]), "key.from_pixel_selected_channels_in_given_order");
    gil::histogram<unsigned char> h1;
    vp_assert((h1.key_from_pixel<1>(p)) == std::make_tuple(p[1]), "key.from_pixel_single_selected_channel");
    gil::gray8_pixel_t g; vp_fill(&g, sizeof g);
    gil::histogram<short> hg;
    vp_assert(hg.key_from_pixel(g) == std::make_tuple((short)g[0]), "key.from_pixel_cast_to_axis_type");
    vp_assert(h3.dimension() == 3 && h2.dimension() == 2 && h1.dimension() == 1, "key.dimension");
}
extern "C" void h_key_from_tuple(void) {
    int a = vp_nondet_int(); int b = vp_nondet_int(); int c = vp_nondet_int();
    auto t = std::make_tuple(a, b, c);
    gil::histogram<int, int, int> h3;
    vp_assert(h3.key_from_tuple(t) == t, "key.from_tuple_identity");
    gil::histogram<int, int> h2;
    vp_assert((h2.key_from_tuple<0, 2>(t)) == std::make_tuple(a, c), "key.from_tuple_selected_axes");
    gil::histogram<long, short> hl;
    vp_assert((hl.key_from_tuple<2, 1>(t)) == std::make_tuple((long)c, (short)b), "key.from_tuple_cast_to_axis_types");
    vp_assert(h3.is_tuple_compatible(t), "key.tuple_of_same_arity_and_convertible_types_is_compatible");
    vp_assert(!h2.is_tuple_compatible(t), "key.tuple_of_other_arity_is_not_compatible");
    vp_assert(h2.is_pixel_compatible(), "key.arithmetic_axes_are_pixel_compatible");
}
// detail::tuple_compare (the lower/upper limit test of histogram::fill): every element <=, not lexicographic
extern "C" void h_tuple_compare(void) {
    int a0 = vp_nondet_int(); int a1 = vp_nondet_int(); int a2 = vp_nondet_int();
    int b0 = vp_nondet_int(); int b1 = vp_nondet_int(); int b2 = vp_nondet_int();
    auto ta = std::make_tuple(a0, a1, a2); auto tb = std::make_tuple(b0, b1, b2);
    vp_assert(gil::detail::tuple_compare(ta, tb) == (a0 <= b0 && a1 <= b1 && a2 <= b2), "limits.tuple_compare_is_elementwise_less_equal");
    auto ua = std::make_tuple((unsigned char)a0); auto ub = std::make_tuple((unsigned char)b0);
    vp_assert(gil::detail::tuple_compare(ua, ub) == ((unsigned char)a0 <= (unsigned char)b0), "limits.tuple_compare_one_axis");
    using lim = gil::detail::tuple_limit<std::tuple<unsigned char, short, int>>;
    vp_assert((lim::min)() == std::make_tuple((unsigned char)0, (short)-32768, (int)(-2147483647 - 1)), "limits.tuple_limit_min");
    vp_assert((lim::max)() == std::make_tuple((unsigned char)255, (short)32767, (int)2147483647), "limits.tuple_limit_max");
    vp_assert(gil::detail::tuple_compare((lim::min)(), (lim::max)()), "limits.default_limits_admit_everything");
}
// an empty histogram: sum 0, nearest_key returns its argument
extern "C" void h_empty(void) {
    gil::histogram<int> h;
    int k = vp_nondet_int();
    vp_assert(h.sum() == 0.0, "empty.sum_is_zero");
    vp_assert(h.nearest_key(std::make_tuple(k)) == std::make_tuple(k), "empty.nearest_key_returns_argument");
    vp_assert(h.size() == 0, "empty.no_bins");
}

// ---------------------------------------------------------------------------------------------- sparse histogram (attempt)
static gil::gray8_view_t make_gray(src_gray8i& s, int W, int H) {
    s.set(W, H); s.fixpad = 0;
    gil::gray8_view_t v = s.make();
    vp_fill(s.plane(0), s.plane_size());
    int nb = vp_param(4), seed = vp_param(5);
    if (nb < 8) { unsigned char low = (unsigned char)((1u << nb) - 1u);
        for (unsigned long j = 0; j < s.plane_size(); ++j) { unsigned char hi = (unsigned char)((seed * 53 + (int)j * 89 + ((seed + (int)j) / 3) * 131) & 0xff);
            s.plane(0)[j] = (unsigned char)((s.plane(0)[j] & low) | (hi & (unsigned char)~low)); } }
    return v;
}
extern "C" void h_sparse_fill(void) {
    int W = vp_param(0), H = vp_param(1); int bw = vp_param(2); bool acc = vp_param(3) != 0;
    src_gray8i s; gil::gray8_view_t v = make_gray(s, W, H);
    gil::histogram<int> h;
    bool prev = vp_param(6) != 0;                       // previous contents: one bin (symbolic key) with count 2
    int pk = vp_range(0, 255);
    if (prev) h(pk) = 2;
    gil::fill_histogram(v, h, (std::size_t)bw, acc);
    vp_assert(h.sum() == (double)(W * H + ((acc && prev) ? 2 : 0)), "sparse.sum_of_bins_equals_number_of_pixels_accumulate_adds_else_replaces");
    int k = vp_range(0, 255);
    int cnt = 0; for (int y = 0; y < H; ++y) for (int x = 0; x < W; ++x) if ((int)v(x, y)[0] / bw == k) ++cnt;
    int expect = cnt + ((acc && prev && k == pk) ? 2 : 0);
    auto it = h.find(std::make_tuple(k));
    vp_assert((it == h.end()) ? (expect == 0) : (it->second == (double)expect), "sparse.bin_counts_pixels_whose_value_over_bin_width_equals_key");
}
// dense (sparsefill = false) re-fill that does not accumulate: whatever the histogram held before is gone; only the bins of the limit
// box exist afterwards and they count the pixels inside the limits.  params: 0,1 dims; 2 bin width (1); 4,5 stratification of the pixels;
// 6 previous bin key (concrete, outside the limit box); 7,8 lower / upper limit
extern "C" void h_sparse_refill(void) {
    int W = vp_param(0), H = vp_param(1); int bw = vp_param(2);
    src_gray8i s; gil::gray8_view_t v = make_gray(s, W, H);
    gil::histogram<int> h;
    int pk = vp_param(6), lo = vp_param(7), hi = vp_param(8);
    h(pk) = 2;
    gil::fill_histogram(v, h, (std::size_t)bw, false, false, false, {}, std::make_tuple(lo), std::make_tuple(hi), true);
    int inside = 0; for (int y = 0; y < H; ++y) for (int x = 0; x < W; ++x) if ((int)v(x, y)[0] >= lo && (int)v(x, y)[0] <= hi) ++inside;
    vp_assert(h.sum() == (double)inside, "sparse.refill_without_accumulate_forgets_previous_contents");
    vp_assert(h.find(std::make_tuple(pk)) == h.end(), "sparse.refill_previous_bin_outside_limits_is_gone");
}
extern "C" void h_sparse_cumulative(void) {
    int W = vp_param(0), H = vp_param(1); int bw = vp_param(2);
    src_gray8i s; gil::gray8_view_t v = make_gray(s, W, H);
    gil::histogram<int> h;
    gil::fill_histogram(v, h, (std::size_t)bw);
    gil::histogram<int> c = gil::cumulative_histogram(h);
    vp_assert(c.size() == h.size(), "sparse.cumulative_same_keys");
    if (W * H > 0) {
        // probe the bin of one symbolic pixel: cumulative count == number of pixels whose key is <= that key; for the largest key
        // that is the total (last bin == total)
        int x = vp_range(0, 1); int y = vp_range(0, 1); vp_assume(x < W && y < H);
        int k = (int)v(x, y)[0] / bw;
        int le = 0; for (int yy = 0; yy < H; ++yy) for (int xx = 0; xx < W; ++xx) if ((int)v(xx, yy)[0] / bw <= k) ++le;
        auto it = c.find(std::make_tuple(k));
        vp_assert(it != c.end() && it->second == (double)le, "sparse.cumulative_counts_pixels_up_to_key_last_equals_total");
    }
}
