// C10: image is a leak-free deep-value container over any operation history.
// Compile-time shape: CFG_PLANAR (0/1), CFG_POCMA, CFG_POCS (allocator propagation traits), OP1, OP2, OP3 (operation codes, -1 = none).
// Run-time-constant shape (vp_param): pre-state, allocator id of b, fault point,
// dimensions/alignments (w1,h1,a1) of a, (w2,h2,a2) of b, (w3,h3,a3) of the new shape.
// Symbolic: fill pixel, probe coordinates, written pixel values, allocator base address residue (unless VP_RESIDUE).
#include <boost/gil.hpp>
#include "vp.hpp"
namespace gil = boost::gil;
using alloc_t = chk_alloc<unsigned char, (CFG_POCMA != 0), false, (CFG_POCS != 0)>;
using pixel_t = gil::rgb8_pixel_t;
using img_t = gil::image<pixel_t, (CFG_PLANAR != 0), alloc_t>;
using img2_t = gil::image<gil::bgr8_pixel_t, (CFG_PLANAR == 0), alloc_t>;   // the other organisation / channel order

struct model { int w, h, al; bool valid; };   // what the harness expects of an image (al < 0: alignment unknown / don't care)

static pixel_t sym_pixel() { pixel_t p; vp_fill(&p, sizeof p); return p; }

template <class Img> static void invariants(Img& a, model const& m, const char* dims_label) {
    if (m.valid) vp_assert(a.width() == m.w && a.height() == m.h, dims_label);
    int w = (int)a.width(), h = (int)a.height();
    if (w > 0 && h > 0) {
        int id = a.allocator().id;
        auto v = gil::view(a);
        // first and last pixel lie inside one live block of the image's allocator
        vp_assert(vp_in_live_block(&v(0, 0)[0], 1, id), "inv.first_pixel_in_live_block");
        vp_assert(vp_in_live_block(&v(w - 1, h - 1)[2], 1, id), "inv.last_pixel_in_live_block");
        if (m.valid && m.al > 0) {
            for (int y = 0; y < h; ++y) vp_assert(vp_addr(&v(0, y)[0]) % (unsigned long)m.al == 0, "inv.row_alignment");
        }
    }
}
static void total_blocks(int images) { vp_assert(vp_live_blocks() <= images, "inv.at_most_one_block_per_image"); }

struct ctx {
    img_t& a; img_t& b; model ma, mb; pixel_t fillp; int idb; int w3, h3, a3; bool threw;
};
template <int OP> static void step(ctx& c) {
    if (OP < 0 || c.threw) return;
    img_t& a = c.a; img_t& b = c.b; model& ma = c.ma; model& mb = c.mb; pixel_t fillp = c.fillp; int idb = c.idb; int w3 = c.w3, h3 = c.h3, a3 = c.a3;
    try {
        if (OP == 0) { a.recreate(w3, h3, (std::size_t)a3); ma = {w3, h3, a3, true}; }
        if (OP == 1) { // recreate to the dimensions the image already has is a no-op in GIL, also for the overload with a fill value (the old
                       // contents stay): the property asks for dimensions / alignment / storage reuse, not for the fill, so the fill value
                       // is only checked when the image really was recreated
                       bool same_dims = (int)a.width() == w3 && (int)a.height() == h3;
                       a.recreate(w3, h3, fillp, (std::size_t)a3); ma = {w3, h3, a3, true};
                       if (w3 > 0 && h3 > 0 && !same_dims) { int x = vp_range(0, 3); int y = vp_range(0, 3); vp_assume(x < w3 && y < h3); vp_assert(gil::view(a)(x, y) == fillp, "op.recreate_fill_value"); } }
        if (OP == 2) { a.recreate(w3, h3, (std::size_t)a3, alloc_t(1)); ma = {w3, h3, a3, true}; }
        if (OP == 3) { a = b; ma = {mb.w, mb.h, -1, true}; vp_assert(a == b, "op.copy_assign_equal"); }
        if (OP == 4) { a = std::move(b); ma = {mb.w, mb.h, -1, true}; mb = {0, 0, 0, false}; }
        if (OP == 5) { if (CFG_POCS || idb == 1) { a.swap(b); model t = ma; ma = mb; mb = t; } }
        if (OP == 6) { img_t c2(a); vp_assert(c2.dimensions() == a.dimensions(), "op.copy_ctor_dims"); vp_assert(c2 == a, "op.copy_ctor_equal");
                       if (a.width() > 0 && a.height() > 0) {   // deep: a write to the source does not reach the copy
                           pixel_t old = gil::view(c2)(0, 0); pixel_t nw = sym_pixel(); gil::view(a)(0, 0) = nw;
                           vp_assert(gil::view(c2)(0, 0) == old, "op.copy_is_deep"); }
                       model mc = ma; mc.al = -1; invariants(c2, mc, "op.copy_ctor_inv"); total_blocks(3); }
        if (OP == 7) { img_t c2(std::move(a)); vp_assert(a.width() == 0 && a.height() == 0, "op.moved_from_is_empty");
                       model mc = ma; invariants(c2, mc, "op.move_ctor_dims"); ma = {0, 0, 0, true}; invariants(a, ma, "op.moved_from_inv");
                       a = std::move(c2); ma = mc; }
        if (OP == 8) { img_t& r = a; a = r; }   // self copy-assignment
        if (OP == 9) { int c0 = vp_alloc_calls(); a.recreate(ma.w, ma.h, (std::size_t)(ma.al < 0 ? 0 : ma.al)); if (ma.al >= 0) vp_assert(vp_alloc_calls() == c0, "op.recreate_same_is_noop"); }
        if (OP == 10) { img2_t d(a); vp_assert(d.dimensions() == a.dimensions(), "op.converting_copy_dims"); vp_assert(d == a, "op.converting_copy_equal"); total_blocks(3);
                        if (a.width() > 0 && a.height() > 0) { gil::view(d)(0, 0) = gil::bgr8_pixel_t(sym_pixel()); }
                        a = d; vp_assert(a == d, "op.converting_assign_equal"); ma.al = -1; }
        if (OP == 11) { // shrink in place: existing storage must be reused (no allocator call)
                        if (ma.valid && ma.w > 0 && ma.h > 0 && ma.al >= 0) { int c0 = vp_alloc_calls(); a.recreate(ma.w, ma.h - 1 > 0 ? ma.h - 1 : 1, (std::size_t)ma.al);
                            vp_assert(vp_alloc_calls() == c0, "op.shrink_reuses_storage"); ma.h = ma.h - 1 > 0 ? ma.h - 1 : 1; } }
        if (OP == 12) { img_t c2(w3, h3, fillp, (std::size_t)a3, alloc_t(1)); a = c2; vp_assert(a == c2, "op.assign_from_temp_equal"); ma = {w3, h3, -1, true}; }
        if (OP == 13) { b = a; mb = {ma.w, ma.h, -1, true}; vp_assert(b == a, "op.copy_assign_to_b_equal");
                        if (a.width() > 0 && a.height() > 0) { pixel_t old = gil::view(b)(0, 0); pixel_t nw = sym_pixel(); gil::view(a)(0, 0) = nw; vp_assert(gil::view(b)(0, 0) == old, "op.assign_is_deep"); } }
        if (OP == 14) { b = std::move(a); mb = {ma.w, ma.h, -1, true}; ma = {0, 0, 0, false}; }
    } catch (std::bad_alloc const&) { c.threw = true; ma.valid = false; mb.valid = false; }
    invariants(a, ma, "op.a_dims_after"); invariants(b, mb, "op.b_dims_after");
    total_blocks(2);
}
#ifndef OP2
#define OP2 -1
#endif
#ifndef OP3
#define OP3 -1
#endif
extern "C" void h_hist(void) {
    int pre = vp_param(0);
    int idb = vp_param(1);
    int fail_at = vp_param(2);
    int w1 = vp_param(3), h1 = vp_param(4), a1 = vp_param(5);
    int w2 = vp_param(6), h2 = vp_param(7), a2 = vp_param(8);
    int w3 = vp_param(9), h3 = vp_param(10), a3 = vp_param(11);
    pixel_t fillp = sym_pixel();
    {
        // ---- pre-state of a (allocator 1) and b (allocator idb); no fault injected while building the pre-state
        img_t a(0, alloc_t(1));
        model ma = {0, 0, 0, true};
        if (pre == 1) { img_t t(w1, h1, fillp, (std::size_t)a1, alloc_t(1)); a.swap(t); ma = {w1, h1, a1, true}; }
        if (pre == 2) { img_t t(w1 + 1, h1 + 1, fillp, (std::size_t)a1, alloc_t(1)); a.swap(t); a.recreate(w1, h1, (std::size_t)a1); ma = {w1, h1, a1, true}; }   // sized then shrunk: storage larger than needed
        if (pre == 3) { img_t t(w1, h1, fillp, (std::size_t)a1, alloc_t(1)); a.swap(t); img_t sink(std::move(a)); ma = {0, 0, 0, true}; }                  // moved-from
        img_t b(w2, h2, fillp, (std::size_t)a2, alloc_t(idb));
        model mb = {w2, h2, a2, true};
        invariants(a, ma, "pre.a_dims"); invariants(b, mb, "pre.b_dims");
        int base_calls = vp_alloc_calls();
        if (fail_at >= 0) vp_set_fail_at(base_calls + fail_at);
        ctx c = { a, b, ma, mb, fillp, idb, w3, h3, a3, false };
        step<OP1>(c); step<OP2>(c); step<OP3>(c);
        vp_set_fail_at(-1);
        // both images remain usable after the history (also after a failure): recreate to a fresh shape and touch a pixel
        a.recreate(2, 1, (std::size_t)0); gil::view(a)(1, 0) = fillp;
        b.recreate(1, 2, (std::size_t)0); gil::view(b)(0, 1) = fillp;
        total_blocks(2);
    }
    vp_check_no_leak();
}
