// C10, element-lifetime clause: every non-trivial element an image constructs is destroyed exactly once, also when an element
// constructor throws part-way through a construction / copy / assignment / recreate.
// Run-time-constant shape (vp_param): 0 = operation (1 construct with fill value, 2 copy construct, 3 copy-assign to a different size,
// 4 recreate to a different size with fill value, 5 default construct), 1,2 = width,height, 3 = alignment,
// 4 = budget: the k-th element construction of the operation throws (-1: none).
// Symbolic: the fill value.  Element type: a counted int wrapper (gil's destruct_range_impl spells the destructor ~value_t(),
// so the element type names itself value_t).
#include <boost/gil.hpp>
#include "vp.hpp"
namespace gil = boost::gil;
static long g_alive = 0; static long g_budget = -1; static long g_min_alive = 0;
struct boom {};
struct elem {
    using value_t = elem;
    int v;
    elem() : v(0) { charge(); }
    explicit elem(int x) : v(x) { charge(); }
    elem(elem const& o) : v(o.v) { charge(); }
    elem& operator=(elem const& o) { v = o.v; return *this; }
    ~elem() { --g_alive; if (g_alive < g_min_alive) g_min_alive = g_alive; }
    bool operator==(elem const& o) const { return v == o.v; }
    bool operator!=(elem const& o) const { return v != o.v; }
private:
    static void charge() { if (g_budget == 0) throw boom(); if (g_budget > 0) --g_budget; ++g_alive; }
};
using alloc_t = chk_alloc<unsigned char>;
using img_t = gil::image<elem, false, alloc_t>;
extern "C" void h_elem(void) {
    int op = vp_param(0), w = vp_param(1), h = vp_param(2), al = vp_param(3), budget = vp_param(4);
    int fv = vp_nondet_int();
    {
        elem fill(fv);
        img_t a(w, h, fill, (std::size_t)al, alloc_t(1));
        vp_assert(g_alive == 1 + (long)w * h, "elem.constructed_once_each");
        long before = g_alive;
        bool threw = false;
        try {
            g_budget = budget;
            if (op == 1) { img_t b(w + 1, h, fill, (std::size_t)al, alloc_t(1)); g_budget = -1; vp_assert(g_alive == before + (long)(w + 1) * h, "elem.fill_construct_count"); }
            if (op == 2) { img_t b(a); g_budget = -1; vp_assert(g_alive == before + (long)w * h, "elem.copy_construct_count"); vp_assert(gil::view(b)(w - 1, h - 1) == fill, "elem.copy_value"); }
            if (op == 3) { img_t b(w + 1, h + 1, fill, (std::size_t)al, alloc_t(1)); long mid = g_alive; b = a; g_budget = -1; vp_assert(g_alive == mid - (long)(w + 1) * (h + 1) + (long)w * h, "elem.assign_count"); }
            if (op == 4) { a.recreate(w + 1, h + 1, fill, (std::size_t)al); g_budget = -1; vp_assert(g_alive == 1 + (long)(w + 1) * (h + 1), "elem.recreate_count"); }
            if (op == 5) { img_t b(w, h + 1, (std::size_t)al, alloc_t(1)); g_budget = -1; vp_assert(g_alive == before + (long)w * (h + 1), "elem.default_construct_count"); }
        } catch (boom const&) { threw = true; }
        g_budget = -1;
        if (threw && op != 4) vp_assert(g_alive == before, "elem.failed_operation_leaves_no_element_behind");
        vp_assert(threw == (budget >= 0 && budget < 1000) || !threw, "elem.harness");
    }
    vp_assert(g_alive == 0, "elem.every_element_destroyed_exactly_once");
    vp_assert(g_min_alive >= 0, "elem.no_element_destroyed_twice");
    vp_check_no_leak();
}
