// C20, line: bresenham_line_rasterizer over symbolic end points, and apply_rasterizer on a view that is exactly the bounding box.
// Shape parameters of h_line_{ends,step,bbox,dist}:
//   vp_param(0) = N (all four end point coordinates symbolic in [-N,N]),
//   vp_param(1) = input class: 0 = every pair of end points with the given major extent,
//                 1 = all of them except the "long shallow" class  (minor extent >= 1  and  major extent + 1 >= 4 * (minor extent + 1)),
//                 2 = only that class   (1/2 split the clauses that fail on that class on the unchanged tree, see props/C20.py),
//   vp_param(2) = M = major extent max(|dx|,|dy|): it decides point_count(), i.e. the size of the output array and the loop count
//                 (a symbolic array size costs 1.8M SAT variables / 20-190 s per query at N=4, the concrete one 80k / < 1 s).
// Symbolic: the four end point coordinates (direction signs, orientation, minor extent, position).
// h_line_apply: vp_param(0) = major extent, vp_param(1) = minor extent (both decide heap sizes inside apply_rasterizer and of the
// view), both orientations and all four directions are run; symbolic: the colour.
#include <boost/gil.hpp>
#include <boost/gil/extension/rasterization/line.hpp>
#include "vp.hpp"
namespace gil = boost::gil;
using pt = gil::point_t;

// Output iterator in the std::back_insert_iterator convention: every assignment stores the next point into an array of
// exactly point_count() points (a heap object of exactly that size: one write too many is a failed proof obligation) and counts it.
struct out_it {
    using iterator_category = std::output_iterator_tag; using value_type = void; using difference_type = std::ptrdiff_t;
    using pointer = void; using reference = void;
    pt* a; long* n;
    out_it& operator*() { return *this; }
    out_it& operator++() { return *this; }
    out_it operator++(int) { return *this; }
    out_it& operator=(pt const& p) { a[*n] = p; ++*n; return *this; }
};
static long labs_(long v) { return v < 0 ? -v : v; }

struct line_case {
    pt s, e; long dx = 0, dy = 0, adx = 0, ady = 0, major = 0, minor = 0, n = 0, cnt = 0; bool xmajor = true; pt* buf = nullptr;
    void input() {
        int N = vp_param(0);
        int x0 = vp_range(-N, N);
        int y0 = vp_range(-N, N);
        int x1 = vp_range(-N, N);
        int y1 = vp_range(-N, N);
        s = pt(x0, y0); e = pt(x1, y1);
        dx = (long)x1 - x0; dy = (long)y1 - y0; adx = labs_(dx); ady = labs_(dy);
        xmajor = adx >= ady; major = xmajor ? adx : ady; minor = xmajor ? ady : adx;
        bool long_shallow = (minor + 1 >= 2) && (major + 1 >= 4 * (minor + 1));
        vp_assume(major == (long)vp_param(2));
        int cls = vp_param(1);
        if (cls == 1) vp_assume(!long_shallow);
        if (cls == 2) vp_assume(long_shallow);
    }
    void run() {
        gil::bresenham_line_rasterizer r(s, e);
        n = (long)r.point_count();
        long m1 = (long)vp_param(2) + 1;
        vp_assert(n == m1, "line.point_count_is_major_extent_plus_one");
        vp_assume(n == m1);
        n = m1;
        buf = (pt*)vp_buf((unsigned long)m1 * sizeof(pt));
        out_it o{buf, &cnt};
        r(o);
    }
    void done() { vp_buf_free(buf); }
};

extern "C" {
// exactly point_count() points, first == start, last == end
void h_line_ends(void) {
    line_case c; c.input(); c.run();
    vp_assert(c.cnt == c.n, "line.writes_point_count_points");
    vp_assert(c.buf[0] == c.s, "line.first_is_start");
    vp_assert(c.buf[c.n - 1] == c.e, "line.last_is_end");
    c.done();
}
// consecutive points are 8-connected and advance by one step along the major axis towards the end point
void h_line_step(void) {
    line_case c; c.input(); c.run();
    for (long i = 1; i < c.n; ++i) {
        long sx = c.buf[i].x - c.buf[i - 1].x, sy = c.buf[i].y - c.buf[i - 1].y;
        vp_assert(labs_(sx) <= 1 && labs_(sy) <= 1, "line.eight_connected");
        long adv = c.xmajor ? (c.dx >= 0 ? sx : -sx) : (c.dy >= 0 ? sy : -sy);
        vp_assert(adv == 1, "line.monotone_on_major_axis");
    }
    c.done();
}
// every point lies inside the end points' bounding box
void h_line_bbox(void) {
    line_case c; c.input(); c.run();
    long xlo = c.s.x < c.e.x ? c.s.x : c.e.x, xhi = c.s.x < c.e.x ? c.e.x : c.s.x;
    long ylo = c.s.y < c.e.y ? c.s.y : c.e.y, yhi = c.s.y < c.e.y ? c.e.y : c.s.y;
    for (long i = 0; i < c.n; ++i)
        vp_assert(c.buf[i].x >= xlo && c.buf[i].x <= xhi && c.buf[i].y >= ylo && c.buf[i].y <= yhi, "line.inside_bounding_box");
    c.done();
}
// within one pixel of the ideal segment, measured along the minor axis: with x the major axis the ideal ordinate at x is
// y0 + (x-x0)*dy/dx, so |y - ideal| <= 1  <=>  |(y-y0)*dx - (x-x0)*dy| <= |dx|   (integers; symmetric when y is the major axis)
void h_line_dist(void) {
    line_case c; c.input(); c.run();
    long i = vp_range(0, (int)c.n - 1);      // one symbolic index = every written point
    long px = c.buf[i].x - c.s.x, py = c.buf[i].y - c.s.y;
    int lim = 4 * vp_param(0);
    vp_assert(px >= -lim && px <= lim && py >= -lim && py <= lim, "line.point_near_end_points");   // keeps the products below in int range
    vp_assume(px >= -lim && px <= lim && py >= -lim && py <= lim);
    int e = (int)py * (int)c.dx - (int)px * (int)c.dy;
    vp_assert(e <= (int)c.major && -e <= (int)c.major, "line.within_one_pixel_of_segment");
    c.done();
}
// apply_rasterizer on a view that is exactly the bounding box (pixel buffer of exactly (|dx|+1)*(|dy|+1) bytes): no access outside it
static void apply_box(long adx, long ady, unsigned char col) {
    long w = adx + 1, h = ady + 1;
    unsigned char* px = (unsigned char*)vp_buf((unsigned long)(w * h));
    gil::gray8_view_t v = gil::interleaved_view(w, h, (gil::gray8_pixel_t*)px, w);
    for (int corner = 0; corner < 4; ++corner) {
        pt s((corner & 1) ? adx : 0, (corner & 2) ? ady : 0), e((corner & 1) ? 0 : adx, (corner & 2) ? 0 : ady);
        gil::apply_rasterizer(v, gil::bresenham_line_rasterizer(s, e), gil::gray8_pixel_t(col));
        vp_assert(v(s)[0] == col && v(e)[0] == col, "line.apply_draws_end_points");
    }
    vp_buf_free(px);
}
void h_line_apply(void) {
    long major = vp_param(0), minor = vp_param(1);
    unsigned char col = vp_nondet_u8();
    apply_box(major, minor, col);
    if (minor != major) apply_box(minor, major, col);
}
}
