// C20, ellipse: midpoint_ellipse_rasterizer::obtain_trajectory / draw_curve / apply_rasterizer.
// Shape parameters: vp_param(0) = a, vp_param(1) = b (semi-axes: they decide every loop count and the trajectory vector's size),
// h_ell_clip: vp_param(2), vp_param(3) = view width, height.  Symbolic: the centre and the colour.
// The rasterizer has no point_count(); its centre is 1-based (draw_curve subtracts one from both coordinates "for converting
// center co-ordinate values to zero based indexing"), so the curve's centre pixel is (cx-1, cy-1).
#include <boost/gil.hpp>
#include <boost/gil/extension/rasterization/ellipse.hpp>
#include "vp.hpp"
namespace gil = boost::gil;
using pt = gil::point_t;
using upt = gil::point<unsigned int>;

// F(x,y) = b^2 x^2 + a^2 y^2 - a^2 b^2: negative inside, zero on, positive outside the ideal ellipse
static long F(long a, long b, long x, long y) { return b * b * x * x + a * a * y * y - a * a * b * b; }
// "within one pixel of the ideal curve" for a first-quadrant point (x,y >= 0): the curve crosses the horizontal or the vertical
// segment of half-length 1 through the point (distance <= 1 measured along an axis, which implies Euclidean distance <= 1);
// F is monotone in x and in y on the first quadrant, so this is a sign change of F between the segment's ends.
// Degenerate semi-axes (a == 0 or b == 0): F vanishes on a whole line; the bounding-box clause then confines the point to the segment.
static bool near_curve(long a, long b, long x, long y) {
    long xm = x > 0 ? x - 1 : 0, ym = y > 0 ? y - 1 : 0;
    return (F(a, b, xm, y) <= 0 && F(a, b, x + 1, y) >= 0) || (F(a, b, x, ym) <= 0 && F(a, b, x, y + 1) >= 0);
}

extern "C" {
// first-quadrant trajectory: non-empty, inside [0,a] x [0,b], within one pixel of the curve, 8-connected from the x axis to the y axis
// (so that its four reflections join into a closed curve)
void h_ell_traj(void) {
    long a = vp_param(0), b = vp_param(1);
    unsigned cx = (unsigned)vp_range(0, 64);
    unsigned cy = (unsigned)vp_range(0, 64);
    gil::midpoint_ellipse_rasterizer ras(upt(cx, cy), upt((unsigned)a, (unsigned)b));
    std::vector<pt> t = ras.obtain_trajectory();
    long n = (long)t.size();
    vp_assert(n >= 1 && n <= a + b + 1, "ellipse.trajectory_size");
    vp_assume(n >= 1 && n <= a + b + 1);
    for (long i = 0; i < n; ++i) {
        vp_assert(t[i].x >= 0 && t[i].x <= a && t[i].y >= 0 && t[i].y <= b, "ellipse.trajectory_in_quadrant_box");
        vp_assume(t[i].x >= 0 && t[i].x <= a && t[i].y >= 0 && t[i].y <= b);
        vp_assert(near_curve(a, b, t[i].x, t[i].y), "ellipse.trajectory_within_one_pixel");
        if (i > 0) {
            long sx = t[i].x - t[i - 1].x, sy = t[i].y - t[i - 1].y;
            vp_assert(sx >= -1 && sx <= 1 && sy >= -1 && sy <= 1, "ellipse.trajectory_eight_connected");
        }
    }
    vp_assert(t[0].y == 0 && t[n - 1].x == 0, "ellipse.trajectory_joins_both_axes");
}
// draw_curve on a view that contains the whole curve: the drawn set is 4-fold symmetric about the centre pixel, lies inside the
// bounding box and within one pixel of the curve; view = (2a+3) x (2b+3), centre symbolic among the positions where the box fits
void h_ell_draw(void) {
    long a = vp_param(0), b = vp_param(1);
    long w = 2 * a + 3, h = 2 * b + 3;
    int cx = vp_range(0, 64);
    int cy = vp_range(0, 64);
    vp_assume(cx - 1 >= a && cx - 1 <= a + 2 && cy - 1 >= b && cy - 1 <= b + 2);
    long ox = cx - 1, oy = cy - 1;      // centre pixel
    unsigned char* px = (unsigned char*)vp_buf((unsigned long)(w * h));
    for (long i = 0; i < w * h; ++i) px[i] = 0;
    gil::gray8_view_t v = gil::interleaved_view(w, h, (gil::gray8_pixel_t*)px, w);
    unsigned char col = vp_nondet_u8();
    vp_assume(col != 0);
    gil::midpoint_ellipse_rasterizer ras(upt((unsigned)cx, (unsigned)cy), upt((unsigned)a, (unsigned)b));
    ras.draw_curve(v, gil::gray8_pixel_t(col), ras.obtain_trajectory());
    // one symbolic pixel of the view
    int x = vp_range(0, (int)w - 1);
    int y = vp_range(0, (int)h - 1);
    long dx = x - ox, dy = y - oy, adx = dx < 0 ? -dx : dx, ady = dy < 0 ? -dy : dy;
    unsigned char p = v(x, y)[0];
    vp_assert(p == 0 || p == col, "ellipse.draws_only_the_colour");
    if (adx <= a && ady <= b) {
        vp_assert(v(ox + adx, oy + ady)[0] == p && v(ox - adx, oy + ady)[0] == p && v(ox + adx, oy - ady)[0] == p && v(ox - adx, oy - ady)[0] == p,
                  "ellipse.four_fold_symmetric");
        vp_assert(p == 0 || near_curve(a, b, adx, ady), "ellipse.drawn_within_one_pixel");
    } else {
        vp_assert(p == 0, "ellipse.inside_bounding_box");
    }
    vp_assert(v(ox + a, oy)[0] == col && v(ox - a, oy)[0] == col, "ellipse.draws_x_axis_points");
    vp_buf_free(px);
}
// apply_rasterizer on a view of any size and any centre: writes are clipped to the view (pixel buffer of exactly the view's size)
void h_ell_clip(void) {
    long a = vp_param(0), b = vp_param(1), w = vp_param(2), h = vp_param(3);
    int cx = vp_range(0, 64);
    int cy = vp_range(0, 64);
    vp_assume(cx <= w + a + 2 && cy <= h + b + 2);
    unsigned char* px = (unsigned char*)vp_buf((unsigned long)(w * h));
    gil::gray8_view_t v = gil::interleaved_view(w, h, (gil::gray8_pixel_t*)px, w);
    unsigned char col = vp_nondet_u8();
    gil::apply_rasterizer(v, gil::midpoint_ellipse_rasterizer(upt((unsigned)cx, (unsigned)cy), upt((unsigned)a, (unsigned)b)), gil::gray8_pixel_t(col));
    // the rightmost point of the curve is drawn whenever it is inside the view
    long rx = (long)cx - 1 + a, ry = (long)cy - 1;
    if (cx >= 1 && cy >= 1 && rx < w && ry < h) vp_assert(v(rx, ry)[0] == col, "ellipse.clip_draws_visible_point");
    vp_buf_free(px);
}
}
