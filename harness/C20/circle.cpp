// C20, circle: midpoint_circle_rasterizer.  (trigonometric_circle_rasterizer needs atan2/sin/cos: outside this technique.)
// Shape parameters: vp_param(0) = radius r (decides point_count(), loop counts, heap sizes); h_circle_apply: vp_param(1) = pad, the view
// is (2r+1+pad)^2 and the centre is symbolic among the positions whose bounding box fits.  Symbolic: the centre (and the colour).
#include <boost/gil.hpp>
#include <boost/gil/extension/rasterization/circle.hpp>
#include "vp.hpp"
namespace gil = boost::gil;
using pt = gil::point_t;

// Output iterator in the std::back_insert_iterator convention: every assignment stores the next point into an array of
// exactly point_count() points (a heap object of exactly that size: one write too many is a failed proof obligation) and counts it.
struct out_it {
    using iterator_category = std::output_iterator_tag; using value_type = void; using difference_type = std::ptrdiff_t;
    using pointer = void; using reference = void;
    pt* a; long* n;
    out_it& operator*() { return *this; }
    out_it& operator++() { return *this; }
    out_it operator++(int) { return *this; }
    out_it& operator=(pt const& p) { a[*n] = p; ++*n; return *this; }
};
static long labs_(long v) { return v < 0 ? -v : v; }
#define CENTRE_MAX 16

struct circle_case {
    long r = 0, cx = 0, cy = 0, n = 0, cnt = 0; pt* buf = nullptr;
    void input() {
        r = vp_param(0);
        cx = vp_range(-CENTRE_MAX, CENTRE_MAX);
        cy = vp_range(-CENTRE_MAX, CENTRE_MAX);
    }
    void run() {
        gil::midpoint_circle_rasterizer ras(pt(cx, cy), r);
        n = (long)ras.point_count();
        vp_assert(n >= 0 && n <= 16 * (r + 2), "circle.point_count_sane");
        vp_assume(n >= 0 && n <= 16 * (r + 2));
        buf = (pt*)vp_buf((unsigned long)n * sizeof(pt));
        out_it o{buf, &cnt};
        ras(o);
    }
    // point i relative to the centre
    long rx(long i) const { return buf[i].x - cx; }
    long ry(long i) const { return buf[i].y - cy; }
    void done() { vp_buf_free(buf); }
};

extern "C" {
// exactly point_count() points are written
void h_circle_count(void) {
    circle_case c; c.input(); c.run();
    vp_assert(c.cnt == c.n, "circle.writes_point_count_points");
    vp_assert(c.n >= 1, "circle.writes_at_least_one_point");
    c.done();
}
// The clauses below are stated for one symbolic index i into the written array (i.e. for every written point).
// within one pixel of the ideal circle: the Euclidean distance of (x,y) to the circle of radius r is |sqrt(x^2+y^2) - r|, so
// distance <= 1  <=>  (r-1)^2 <= x^2+y^2 <= (r+1)^2   for r >= 1   (r = 0: x^2+y^2 <= 1), i.e. -(2r-1) <= x^2+y^2-r^2 <= 2r+1
void h_circle_band(void) {
    circle_case c; c.input(); c.run();
    long lo = c.r >= 1 ? (c.r - 1) * (c.r - 1) : 0, hi = (c.r + 1) * (c.r + 1);
    long i = vp_range(0, (int)c.n - 1);
    long x = c.rx(i), y = c.ry(i);
    vp_assert(x >= -64 && x <= 64 && y >= -64 && y <= 64, "circle.point_near_centre");   // keeps the squares in int range
    int d2 = (int)x * (int)x + (int)y * (int)y;
    vp_assert(d2 >= lo && d2 <= hi, "circle.within_one_pixel_of_circle");
    c.done();
}
// inside the bounding box [cx-r,cx+r] x [cy-r,cy+r]
void h_circle_bbox(void) {
    circle_case c; c.input(); c.run();
    long i = vp_range(0, (int)c.n - 1);
    vp_assert(labs_(c.rx(i)) <= c.r && labs_(c.ry(i)) <= c.r, "circle.inside_bounding_box");
    c.done();
}
// Set-level clauses: the coordinates relative to the centre are range-checked at full width (|.| <= 64) and then narrowed to
// 8 bits (lossless when the range check holds; it is an obligation of the same query), which keeps the set comparisons small.
#define MAXPTS 128
struct rel_set {
    signed char X[MAXPTS], Y[MAXPTS]; long n;
    void take(circle_case const& c) {
        n = c.n;
        vp_assert(n <= MAXPTS, "circle.harness_capacity");
        vp_assume(n <= MAXPTS);
        for (long j = 0; j < n; ++j) {
            long x = c.rx(j), y = c.ry(j);
            vp_assert(x >= -64 && x <= 64 && y >= -64 && y <= 64, "circle.point_near_centre");
            X[j] = (signed char)x; Y[j] = (signed char)y;
        }
    }
};
// the written set is closed under the 8 symmetries of the square about the centre
void h_circle_sym(void) {
    circle_case c; c.input(); c.run();
    rel_set s; s.take(c);
    long i = vp_range(0, (int)c.n - 1);
    int x = s.X[i], y = s.Y[i];
    bool f1 = false, f2 = false, f3 = false, f4 = false, f5 = false, f6 = false, f7 = false;
    for (long j = 0; j < s.n; ++j) {
        int u = s.X[j], v = s.Y[j];
        f1 = f1 || (u == -x && v == y); f2 = f2 || (u == x && v == -y); f3 = f3 || (u == -x && v == -y);
        f4 = f4 || (u == y && v == x); f5 = f5 || (u == -y && v == x); f6 = f6 || (u == y && v == -x); f7 = f7 || (u == -y && v == -x);
    }
    vp_assert(f1, "circle.sym_mirror_x");
    vp_assert(f2, "circle.sym_mirror_y");
    vp_assert(f3, "circle.sym_rot180");
    vp_assert(f4, "circle.sym_diag");
    vp_assert(f5, "circle.sym_rot90");
    vp_assert(f6, "circle.sym_rot270");
    vp_assert(f7, "circle.sym_antidiag");
    c.done();
}
// the written set is a closed curve: for r >= 1 every point has two different 8-neighbours in the set (no gap, no loose end)
void h_circle_closed(void) {
    circle_case c; c.input(); c.run();
    rel_set s; s.take(c);
    long i = vp_range(0, (int)c.n - 1);
    int x = s.X[i], y = s.Y[i];
    bool one = false, two = false; int ax = 0, ay = 0;
    for (long j = 0; j < s.n; ++j) {
        int u = s.X[j], v = s.Y[j];
        bool adj = u - x <= 1 && x - u <= 1 && v - y <= 1 && y - v <= 1 && !(u == x && v == y);
        if (adj && one && !(u == ax && v == ay)) two = true;
        if (adj && !one) { one = true; ax = u; ay = v; }
    }
    vp_assert(c.r == 0 || two, "circle.closed_curve");
    c.done();
}
// apply_rasterizer on a view that contains the bounding box (pixel buffer of exactly the view's size): no access outside it
void h_circle_apply(void) {
    long r = vp_param(0), pad = vp_param(1), side = 2 * r + 1 + pad;
    int cx = vp_range(0, 64);
    int cy = vp_range(0, 64);
    vp_assume(cx >= r && cx <= r + pad && cy >= r && cy <= r + pad);
    unsigned char* px = (unsigned char*)vp_buf((unsigned long)(side * side));
    gil::gray8_view_t v = gil::interleaved_view(side, side, (gil::gray8_pixel_t*)px, side);
    unsigned char col = vp_nondet_u8();
    gil::apply_rasterizer(v, gil::midpoint_circle_rasterizer(pt(cx, cy), r), gil::gray8_pixel_t(col));
    vp_assert(v(cx, cy - r)[0] == col && v(cx, cy + r)[0] == col && v(cx - r, cy)[0] == col && v(cx + r, cy)[0] == col, "circle.apply_draws_axis_points");
    vp_buf_free(px);
}
}
