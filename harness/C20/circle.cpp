// C20, circle: midpoint_circle_rasterizer.  (trigonometric_circle_rasterizer needs atan2/sin/cos: outside this technique.)
// Shape parameters: vp_param(0) = radius r (decides point_count(), loop counts, heap sizes); h_circle_apply: vp_param(1) = pad, the view
// is (2r+1+pad)^2 and the centre is symbolic among the positions whose bounding box fits.  Symbolic: the centre (and the colour).
#include <boost/gil.hpp>
#include <boost/gil/extension/rasterization/circle.hpp>
#include "vp.hpp"
namespace gil = boost::gil;
using pt = gil::point_t;

// Output iterator in the std::back_insert_iterator convention: every assignment stores the next point into an array of
// exactly point_count() points (a heap object of exactly that size: one write too many is a failed proof obligation) and counts it.
struct out_it {
    using iterator_category = std::output_iterator_tag; using value_type = void; using difference_type = std::ptrdiff_t;
    using pointer = void; using reference = void;
    pt* a; long* n;
    out_it& operator*() { return *this; }
    out_it& operator++() { return *this; }
    out_it operator++(int) { return *this; }
    out_it& operator=(pt const& p) { a[*n] = p; ++*n; return *this; }
};
static long labs_(long v) { return v < 0 ? -v : v; }
#define CENTRE_MAX 16

struct circle_case {
    long r = 0, cx = 0, cy = 0, n = 0, cnt = 0; pt* buf = nullptr;
    void input() {
        r = vp_param(0);
        cx = vp_range(-CENTRE_MAX, CENTRE_MAX);
        cy = vp_range(-CENTRE_MAX, CENTRE_MAX);
    }
    void run() {
        gil::midpoint_circle_rasterizer ras(pt(cx, cy), r);
        n = (long)ras.point_count();
        vp_assert(n >= 0 && n <= 16 * (r + 2), "circle.point_count_sane");
        vp_assume(n >= 0 && n <= 16 * (r + 2));
        buf = (pt*)vp_buf((unsigned long)n * sizeof(pt));
        out_it o{buf, &cnt};
        ras(o);
    }
    // point i relative to the centre
    long rx(long i) const { return buf[i].x - cx; }
    long ry(long i) const { return buf[i].y - cy; }
    bool has(long x, long y) const { bool f = false; for (long j = 0; j < n; ++j) f = f || (rx(j) == x && ry(j) == y); return f; }
    void done() { vp_buf_free(buf); }
};

extern "C" {
// exactly point_count() points are written
void h_circle_count(void) {
    circle_case c; c.input(); c.run();
    vp_assert(c.cnt == c.n, "circle.writes_point_count_points");
    vp_assert(c.n >= 1, "circle.writes_at_least_one_point");
    c.done();
}
// within one pixel of the ideal circle: the Euclidean distance of (x,y) to the circle of radius r is |sqrt(x^2+y^2) - r|, so
// distance <= 1  <=>  (r-1)^2 <= x^2+y^2 <= (r+1)^2   for r >= 1   (r = 0: x^2+y^2 <= 1), i.e. -(2r-1) <= x^2+y^2-r^2 <= 2r+1
void h_circle_band(void) {
    circle_case c; c.input(); c.run();
    long lo = c.r >= 1 ? (c.r - 1) * (c.r - 1) : 0, hi = (c.r + 1) * (c.r + 1);
    for (long i = 0; i < c.n; ++i) {
        long x = c.rx(i), y = c.ry(i);
        vp_assert(x >= -64 && x <= 64 && y >= -64 && y <= 64, "circle.point_near_centre");   // keeps the squares in range
        int d2 = (int)x * (int)x + (int)y * (int)y;
        vp_assert(d2 >= lo && d2 <= hi, "circle.within_one_pixel_of_circle");
    }
    c.done();
}
// inside the bounding box [cx-r,cx+r] x [cy-r,cy+r]
void h_circle_bbox(void) {
    circle_case c; c.input(); c.run();
    for (long i = 0; i < c.n; ++i)
        vp_assert(labs_(c.rx(i)) <= c.r && labs_(c.ry(i)) <= c.r, "circle.inside_bounding_box");
    c.done();
}
// the written set is closed under the 8 symmetries of the square about the centre
void h_circle_sym(void) {
    circle_case c; c.input(); c.run();
    for (long i = 0; i < c.n; ++i) {
        long x = c.rx(i), y = c.ry(i);
        bool all = c.has(-x, y) && c.has(x, -y) && c.has(-x, -y) && c.has(y, x) && c.has(-y, x) && c.has(y, -x) && c.has(-y, -x);
        vp_assert(all, "circle.eight_fold_symmetric");
    }
    c.done();
}
// the written set is a closed curve: for r >= 1 every point has two different 8-neighbours in the set (no gap, no loose end)
void h_circle_closed(void) {
    circle_case c; c.input(); c.run();
    for (long i = 0; i < c.n; ++i) {
        long x = c.rx(i), y = c.ry(i);
        bool one = false, two = false; long ax = 0, ay = 0;
        for (long j = 0; j < c.n; ++j) {
            long u = c.rx(j), v = c.ry(j);
            bool adj = labs_(u - x) <= 1 && labs_(v - y) <= 1 && !(u == x && v == y);
            if (adj && one && !(u == ax && v == ay)) two = true;
            if (adj && !one) { one = true; ax = u; ay = v; }
        }
        vp_assert(c.r == 0 || two, "circle.closed_curve");
    }
    c.done();
}
// apply_rasterizer on a view that contains the bounding box (pixel buffer of exactly the view's size): no access outside it
void h_circle_apply(void) {
    long r = vp_param(0), pad = vp_param(1), side = 2 * r + 1 + pad;
    int cx = vp_range(0, 64);
    int cy = vp_range(0, 64);
    vp_assume(cx >= r && cx <= r + pad && cy >= r && cy <= r + pad);
    unsigned char* px = (unsigned char*)vp_buf((unsigned long)(side * side));
    gil::gray8_view_t v = gil::interleaved_view(side, side, (gil::gray8_pixel_t*)px, side);
    unsigned char col = vp_nondet_u8();
    gil::apply_rasterizer(v, gil::midpoint_circle_rasterizer(pt(cx, cy), r), gil::gray8_pixel_t(col));
    vp_assert(v(cx, cy - r)[0] == col && v(cx, cy + r)[0] == col && v(cx - r, cy)[0] == col && v(cx + r, cy)[0] == col, "circle.apply_draws_axis_points");
    vp_buf_free(px);
}
}
