#!/usr/bin/env python3
"""gv: driver for solver-based checking of the real Boost.GIL code.

  gv.py check <ID> [--tier quick|thorough] [--only REGEX] [--keep] [-j N]
  gv.py replay <replay.json>
  gv.py setup

Pipeline per query:  harness.cpp --clang++-14--> LLVM IR --tools/ll2c.py--> C --cbmc(+SAT portfolio)--> verdict
                     FAILURE --> inputs from the trace --> native ASan/UBSan replay --> VIOLATION only if reproduced
Everything is rebuilt from /repo's working tree on every run.
"""
import sys, os, re, json, time, subprocess, hashlib, shutil, threading, importlib.util, argparse, resource, signal
from concurrent.futures import ThreadPoolExecutor, as_completed

ROOT = os.path.dirname(os.path.abspath(__file__))
REPO = os.environ.get('GV_REPO', '/repo')
INC = os.path.join(REPO, 'include')
WORK = os.path.join(ROOT, '.work')
CLANG = 'clang++-14'
CLANG_FLAGS = ['-std=c++14', '-O1', '-fno-vectorize', '-fno-slp-vectorize', '-fno-unroll-loops', '-ffp-contract=off', '-mllvm', '-disable-loop-idiom-all',
               '-DNDEBUG', '-DBOOSTORG_GIL_VERIF', '-w', '-g1', '-S', '-emit-llvm']
CBMC_BASE = ['--no-standard-checks', '--pointer-check', '--bounds-check', '--unwinding-assertions',
             '--object-bits', '12', '--max-field-sensitivity-array-size', '2048', '--slice-formula', '--drop-unused-functions']
MEM_CAP_GB = float(os.environ.get('GV_MEM_GB', '8'))

class Q:
    """One solver query: a harness entry point compiled with concrete shape parameters; all data inputs symbolic."""
    def __init__(self, name, src, entry, defs=None, unwind=8, unwindset=None, rt=(), tier='quick', timeout=None,
                 solvers=None, labels=None, shape=None, cdefs=None, bughunt=False, unwind_is_property=False,
                 params=None, finding_class=None, note=None, nsw=False, new_limit=None, mem_gb=None, rt_unwind=260, mem_unwind=130, memcheck=False):
        self.name, self.src, self.entry = name, src, entry
        self.defs = dict(defs or {})
        self.unwind, self.unwindset = unwind, list(unwindset or [])
        self.rt = list(rt); self.tier = tier; self.timeout = timeout
        self.solvers = solvers; self.labels = labels
        self.shape = shape if shape is not None else dict(self.defs, **({'params': list(params)} if params else {}))
        self.cdefs = dict(cdefs or {}); self.bughunt = bughunt; self.unwind_is_property = unwind_is_property
        self.mem_unwind = mem_unwind; self.params = list(params or []); self.rt_unwind = rt_unwind; self.note = note; self.nsw = nsw; self.new_limit = new_limit; self.mem_gb = mem_gb
        self.memcheck = memcheck   # replay also under valgrind memcheck (labels whose failure is a use of uninitialised bytes)

def sh(cmd, timeout=None, cwd=None, mem_gb=None, env=None):
    def pre():
        os.setsid()
        if mem_gb:
            b = int(mem_gb * (1 << 30)); resource.setrlimit(resource.RLIMIT_AS, (b, b))
    t0 = time.time()
    p = subprocess.Popen(cmd, stdout=subprocess.PIPE, stderr=subprocess.PIPE, cwd=cwd, preexec_fn=pre, env=env)
    try:
        out, err = p.communicate(timeout=timeout)
        to = False
    except subprocess.TimeoutExpired:
        try: os.killpg(p.pid, signal.SIGKILL)
        except ProcessLookupError: pass
        out, err = p.communicate(); to = True
    return dict(rc=p.returncode, out=out.decode('utf-8', 'replace'), err=err.decode('utf-8', 'replace'), timeout=to, wall=time.time() - t0)

_locks = {}; _lock_guard = threading.Lock()
def keyed_lock(k):
    with _lock_guard:
        return _locks.setdefault(k, threading.Lock())

def rt_files(q):
    fs = [os.path.join(ROOT, 'rt', 'vp_rt.c')]
    for m in q.rt: fs.append(os.path.join(ROOT, 'rt', 'rt_%s.c' % m))
    return fs

def known_syms(files):
    ks = set()
    for f in files + [os.path.join(ROOT, 'rt', 'vp_rt.h')]:
        ks.update(re.findall(r'\b[XG]_\w+', open(f).read()))
    return ks

class BuildError(Exception): pass

def build_tu(q, wdir):
    """compile harness TU (once per (src, defs)) -> dir with h.ll"""
    key = hashlib.sha1((q.src + json.dumps(q.defs, sort_keys=True)).encode()).hexdigest()[:12]
    d = os.path.join(wdir, 'tu_' + key)
    with keyed_lock(d):
        ll = os.path.join(d, 'h.ll')
        if os.path.exists(os.path.join(d, 'ok')): return d
        if os.path.exists(os.path.join(d, 'fail')): raise BuildError(open(os.path.join(d, 'fail')).read())
        os.makedirs(d, exist_ok=True)
        cmd = [CLANG] + CLANG_FLAGS + ['-I', INC, '-I', os.path.join(ROOT, 'harness')] + \
              ['-D%s=%s' % kv for kv in sorted(q.defs.items())] + [os.path.join(ROOT, 'harness', q.src), '-o', ll]
        r = sh(cmd, timeout=600)
        if r['rc'] != 0:
            errs = [l for l in r['err'].split('\n') if ' error: ' in l or 'fatal error' in l]
            msg = 'clang failed for %s %s:\n%s' % (q.src, q.defs, '\n'.join(errs[:4]) or r['err'][-1500:])
            open(os.path.join(d, 'fail'), 'w').write(msg)
            raise BuildError(msg)
        open(os.path.join(d, 'ok'), 'w').write(' '.join(cmd))
        return d

def translate(q, tud):
    out = os.path.join(tud, q.entry + '__' + '_'.join(q.rt))
    with keyed_lock(out):
        if os.path.exists(os.path.join(out, q.entry + '.c')): return out
        os.makedirs(out, exist_ok=True)
        kf = os.path.join(out, 'known.txt')
        open(kf, 'w').write('\n'.join(sorted(known_syms(rt_files(q)))))
        r = sh([sys.executable, os.path.join(ROOT, 'tools', 'll2c.py'), os.path.join(tud, 'h.ll'), '--outdir', out, '--root', q.entry, '--known', kf], timeout=600)
        if r['rc'] != 0:
            shutil.rmtree(out, ignore_errors=True)
            raise BuildError('ll2c failed for %s/%s:\n%s' % (q.src, q.entry, r['err'][-3000:]))
        return out

def gil_functions(tud):
    """names of boost::gil functions whose code is in the IR (debug-info subprograms, so inlined ones are included)"""
    names = set()
    try:
        for m in re.finditer(r'!DISubprogram\(name: "([^"]+)", linkageName: "(_ZN[K]?5boost3gil[^"]*)"', open(os.path.join(tud, 'h.ll')).read()):
            names.add(m.group(2))
    except OSError: pass
    return names

def write_main(q, outd, ret_void=True):
    p = os.path.join(outd, 'main_%s.c' % q.entry)
    if os.path.exists(p): return p          # content depends only on the entry name; queries sharing (TU, entry) run concurrently
    tmp = p + '.%d.%d.tmp' % (os.getpid(), threading.get_ident())
    open(tmp, 'w').write('''#include "vp_rt.h"
void F_%s(void);
int main(void) { vp_rt_init(); vp_init_globals(); F_%s();
  /* an exception that leaves the harness entry is std::terminate in the real program: never a silent pass of the assertions it skipped */
#ifdef VP_WITNESS
  VP_ASSUME(!vp_exc_pending);
  __CPROVER_assert(0, "witness.reached_end");
#else
  VP_CHECK(!vp_exc_pending, "exc.uncaught_exception_escapes_harness");
#endif
  return 0; }
''' % (q.entry, q.entry))
    os.replace(tmp, p)
    return p

def cbmc_cmd(q, outd, extra):
    files = [os.path.join(outd, q.entry + '.c'), write_main(q, outd)] + rt_files(q)
    cmd = ['cbmc'] + files + ['-I', os.path.join(ROOT, 'rt')] + CBMC_BASE + ['--unwind', str(q.unwind)]
    if q.bughunt: cmd = [c for c in cmd if c != '--unwinding-assertions']
    for k, v in q.cdefs.items(): cmd += ['-D%s=%s' % (k, v)]
    if q.params: cmd += ['-DVP_PARAMS=' + ','.join(str(int(p)) for p in q.params)]
    if q.nsw: cmd += ['-DVP_NSW']
    if q.new_limit is not None: cmd += ['-DVP_NEW_LIMIT=%d' % q.new_limit]
    return cmd + extra

_rt_loops = {}
def rt_loop_ids(q):
    """loop ids of the runtime model's own loops (vp_memcpy.0, X_vp_free.0, ...), listed once per rt module set"""
    key = tuple(q.rt)
    with keyed_lock('rtloops'):
        if key not in _rt_loops:
            stub = os.path.join(WORK, 'rtloops_%d.c' % os.getpid())
            os.makedirs(WORK, exist_ok=True)
            open(stub, 'w').write('#include "vp_rt.h"\nvoid vp_init_globals(void) {}\nuint32_t vp_typeid_for(uint8_t* t) { return 0; }\nuint8_t* vp_func_from_id(uint64_t x) { return 0; }\nuint64_t vp_func_to_id(uint8_t* p) { return 0; }\nint main(void) { uint8_t a[2], b[2]; vp_memcpy(a, b, 2); vp_memmove(a, b, 2); vp_memset(a, 0, 2); return vp_ctpop64(1) + vp_ctlz_n(1, 8) + vp_cttz_n(1, 8); }\n')
            ids = []
            for attempt in range(3):
                r = sh(['cbmc', stub] + rt_files(q) + ['-I', os.path.join(ROOT, 'rt'), '--show-loops', '--json-ui'], timeout=300)
                try:
                    for o in json.loads(r['out']):
                        for l in o.get('loops', []) if isinstance(o, dict) else []: ids.append(l['name'])
                    break
                except ValueError: continue
            if not ids: raise BuildError('cannot list runtime-model loops: ' + r['err'][-500:])
            _rt_loops[key] = [i for i in ids if re.match(r'(vp_|X_)', i)]
        return _rt_loops[key]

def loops_for(q, outd):
    """--unwindset: runtime-model loops get q.rt_unwind; (function-name pattern -> bound) entries of q.unwindset are
    resolved against cbmc --show-loops of the generated program"""
    # X_vp_fill_n is only ever called with concrete sizes (unrolled exactly); the other runtime loops get the query's rt_unwind
    # vp_mem* also serve constant-size struct copies/zeroing emitted by clang (up to ~130 bytes)
    us = ['%s:%d' % (i, 2100 if i.startswith('X_vp_fill_n.') else (max(q.rt_unwind, q.mem_unwind) if i.startswith('vp_mem') else q.rt_unwind)) for i in rt_loop_ids(q)]
    if q.unwindset:
        js = None
        for attempt in range(3):
            r = sh(cbmc_cmd(q, outd, ['--show-loops', '--json-ui']), timeout=300)
            try: js = json.loads(r['out']); break
            except ValueError: continue
        if js is None: raise BuildError('cbmc --show-loops failed: ' + r['err'][-500:])
        for o in js:
            for l in o.get('loops', []) if isinstance(o, dict) else []:
                name = l['name']; fn = name.rsplit('.', 1)[0]
                if re.match(r'(vp_|X_)', fn): continue
                for p, b in q.unwindset:
                    if re.search(p, fn): us.append('%s:%d' % (name, b)); break
    return ['--unwindset', ','.join(us)] if us else []

SOLVERS = {
    'minisat': [],
    'cadical': ['--sat-solver', 'cadical'],
    'kissat': ['--external-sat-solver', 'kissat'],
}

def parse_results(out):
    try: js = json.loads(out)
    except ValueError: return None, None
    res = None; status = None
    for o in js:
        if isinstance(o, dict):
            if 'result' in o: res = o['result']
            if 'cProverStatus' in o: status = o['cProverStatus']
    return res, status

def classify(desc):
    if desc.startswith(('prop.', 'ub.', 'alloc.', 'env.', 'witness.', 'exc.')): return desc.split(':')[0] if desc.startswith('env.unmodelled') else desc
    if desc.startswith('unwinding assertion'): return 'unwind'
    if 'recursion' in desc: return 'unwind'
    return 'mem.' + re.sub(r'\s+', '_', desc.split(' in ')[0])[:60]

def run_solver(q, outd, extra, timeout, mem_gb):
    """try the SAT portfolio in order; returns (verdict, results, info)"""
    solvers = q.solvers or ['minisat:30', 'kissat']
    info = dict(attempts=[])
    t_left = timeout
    for k, s in enumerate(solvers):
        nm, _, cap = s.partition(':')
        cap = float(cap) if cap else t_left
        if k == len(solvers) - 1: cap = t_left
        cap = max(5.0, min(cap, t_left))
        r = sh(cbmc_cmd(q, outd, extra + SOLVERS[nm] + ['--json-ui']), timeout=cap, mem_gb=mem_gb)
        t_left -= r['wall']
        att = dict(solver=nm, wall_s=round(r['wall'], 2), timeout=r['timeout'], rc=r['rc'])
        info['attempts'].append(att)
        if r['timeout']:
            if t_left <= 5: break
            continue
        res, status = parse_results(r['out'])
        if res is None:
            if status == 'success' and r['rc'] == 0:
                return 'success', [], info      # no properties at all
            att['error'] = (r['out'][-600:] + r['err'][-600:])
            if 'out of memory' in r['err'].lower() or 'bad_alloc' in r['err'] or r['rc'] in (-9, -6, 134, 137):
                att['oom'] = True
                continue
            continue
        info['decided_by'] = nm
        return ('success' if status == 'success' else 'failure'), res, info
    return 'inconclusive', None, info

def trace_inputs(tr):
    vals = []
    for st in tr or []:
        if st.get('stepType') == 'assignment' and st.get('lhs') == 'vp_nd_log' and not st.get('hidden'):
            v = st.get('value', {})
            b = v.get('binary')
            vals.append(int(b, 2) if b else int(v.get('data', '0')))
    return vals

def get_trace(q, outd, us, prop, timeout, mem):
    """re-solve one failed property without formula slicing so that the trace lists every logged input in call order"""
    cmd = [c for c in cbmc_cmd(q, outd, us + ['--json-ui', '--trace', '--property', prop]) if c != '--slice-formula']
    for sv in (['--external-sat-solver', 'kissat'], []):
        r = sh(cmd + sv, timeout=timeout, mem_gb=mem)
        res, status = parse_results(r['out'])
        for p in res or []:
            if p.get('status') == 'FAILURE' and p.get('trace'): return trace_inputs(p['trace'])
    return None

# ---------------------------------------------------------------------------------------------- native replay
NATIVE_FLAGS = ['-std=c++14', '-O1', '-g', '-DNDEBUG', '-DBOOSTORG_GIL_VERIF', '-w', '-fsanitize=address,undefined,float-cast-overflow',
                '-fno-sanitize-recover=all', '-fno-omit-frame-pointer']

MEMCHECK_FLAGS = ['-std=c++14', '-O0', '-gdwarf-4', '-DNDEBUG', '-DBOOSTORG_GIL_VERIF', '-w', '-fno-omit-frame-pointer']   # unoptimised: every local in its own fresh frame

def build_native(src, defs, rt, outdir, tag='native', flags=None):
    flags = flags or NATIVE_FLAGS
    exe = os.path.join(outdir, tag)
    with keyed_lock(exe):
        if os.path.exists(exe): return exe
        os.makedirs(outdir, exist_ok=True)
        objs = []
        for m in ['vp_rt'] + ['rt_' + x for x in rt]:
            o = os.path.join(outdir, m + '.' + tag + '.o')
            r = sh(['clang-14', '-O1', '-gdwarf-4', '-w', '-c', '-I', os.path.join(ROOT, 'rt'), os.path.join(ROOT, 'rt', m + '.c'), '-o', o], timeout=300)
            if r['rc'] != 0: raise BuildError('native rt build failed: ' + r['err'][-3000:])
            objs.append(o)
        cmd = [CLANG] + flags + ['-rdynamic', '-I', INC, '-I', os.path.join(ROOT, 'harness'), '-I', os.path.join(ROOT, 'rt')] + \
              ['-D%s=%s' % kv for kv in sorted(defs.items())] + \
              [os.path.join(ROOT, 'harness', src), os.path.join(ROOT, 'rt', 'native_rt.cpp')] + objs + ['-ldl', '-o', exe]
        r = sh(cmd, timeout=900)
        if r['rc'] != 0: raise BuildError('native build failed: ' + r['err'][-3000:])
        return exe

def run_native(exe, entry, inputs, timeout=60, params=(), wrapper=()):
    inp = exe + '.%d.in' % threading.get_ident()
    open(inp, 'w').write('\n'.join(str(v) for v in inputs) + '\n')
    env = dict(os.environ, VP_PARAMS=','.join(str(int(p)) for p in params), ASAN_OPTIONS='detect_leaks=0:abort_on_error=0:exitcode=77', UBSAN_OPTIONS='print_stacktrace=1:exitcode=78')
    r = sh(list(wrapper) + [exe, entry, inp], timeout=timeout, env=env)
    os.unlink(inp)
    return r

def memcheck_confirms(r):
    """valgrind memcheck run of the unoptimised native build: a use of uninitialised bytes reported with a boost::gil frame on its stack"""
    txt = r['out'] + r['err']
    for blk in re.split(r'\n==\d+== \n', txt):
        if 'uninitialised' in blk and 'boost::gil' in blk:
            m = re.search(r'at 0x[0-9A-F]+: ([^\n]{0,120})', blk)
            return 'memcheck:uninitialised_value_used' + ((' at ' + m.group(1)) if m else '')
    return None

def replay_confirms(r, label):
    """does the native run reproduce the solver's counterexample?  prop.* labels must fail the same assertion natively
    (or trip a sanitizer); memory-safety / ub.* obligations are confirmed by any sanitizer report or failed check"""
    txt = r['out'] + r['err']
    if r['timeout']: return 'hang'
    if 'VP_ASSUME_FAILED' in txt: return None
    if 'AddressSanitizer' in txt:
        m = re.search(r'AddressSanitizer: (\S+)', txt); return 'asan:' + (m.group(1) if m else '?')
    if 'runtime error:' in txt:
        m = re.search(r'runtime error: ([^\n]{0,80})', txt); return 'ubsan:' + m.group(1)
    if 'VP_CHECK_FAIL ' + label + '\n' in txt: return 'assert:' + label
    m = re.search(r'VP_CHECK_FAIL (\S+)', txt)
    if m and not label.startswith('prop.'): return 'assert:' + m.group(1)
    if r['rc'] is not None and r['rc'] < 0: return 'signal:%d' % -r['rc']
    return None

# ---------------------------------------------------------------------------------------------- known findings
def load_findings(pid):
    fs = []
    p = os.path.join(ROOT, 'known_findings.txt')
    if not os.path.exists(p): return fs
    for ln in open(p):
        ln = ln.strip()
        m = re.match(r'finding:\s+property=(\S+)\s+query=(\S+)\s+label=(\S+)\s+(.*)$', ln)
        if m and m.group(1) == pid:
            fs.append(dict(query=m.group(2), label=m.group(3), text=m.group(4), hit=False))
    return fs

def match_finding(fs, qname, label):
    for f in fs:
        if re.fullmatch(f['query'], qname) and re.fullmatch(f['label'], label):
            f['hit'] = True; return f
    return None

# ---------------------------------------------------------------------------------------------- one query
def run_query(pid, q, wdir, tier, findings):
    t0 = time.time()
    rec = dict(query=q.name, harness=q.src, entry=q.entry, shape=q.shape, unwind=q.unwind, unwindset=q.unwindset, rt=q.rt,
               verdict=None, assertions=0, failures=[], bughunt=q.bughunt)
    if q.note: rec['note'] = q.note
    try:
        tud = build_tu(q, wdir)
        outd = translate(q, tud)
        us = loops_for(q, outd)
    except BuildError as e:
        rec['verdict'] = 'build_error'; rec['error'] = str(e); rec['wall_s'] = round(time.time() - t0, 2)
        return rec
    meta = json.load(open(os.path.join(outd, q.entry + '.meta.json')))
    rec['functions_translated'] = len(meta['functions']); rec['unmodelled'] = meta['unmodelled']
    rec['gil_functions'] = sorted(gil_functions(tud))
    timeout = q.timeout or (120 if tier == 'quick' else 900)
    mem = q.mem_gb or MEM_CAP_GB
    # witness twin: must be able to reach the end of the harness (guards against vacuous passes)
    wit = None; wr = None
    for sv, cap in ((SOLVERS['minisat'], min(20, timeout)), (SOLVERS['kissat'], timeout)):
        # reachability only: no pointer/bounds instrumentation, no unwinding assertions (paths beyond the bound are cut, which can only lose witnesses)
        wcmd = [c for c in cbmc_cmd(q, outd, us + sv + ['-DVP_WITNESS', '--json-ui', '--property', 'main.assertion.1']) if c not in ('--pointer-check', '--bounds-check', '--unwinding-assertions')]
        wr = sh(wcmd, timeout=cap, mem_gb=mem)
        wres, wstatus = parse_results(wr['out'])
        if wres is not None:
            for p in wres:
                if p.get('description', '').startswith('witness.'): wit = p['status']
        if wit: break
    rec['witness'] = {'FAILURE': 'reachable', 'SUCCESS': 'UNREACHABLE'}.get(wit, 'inconclusive' if wr['timeout'] else 'error')
    if rec['witness'] == 'error': rec['witness_error'] = (wr['out'][-500:] + wr['err'][-500:])
    groups = [None]
    if q.labels: groups = q.labels
    allres = []; verdict = 'success'; solver_s = 0.0; decided = []
    for g in groups:
        extra = list(us)
        if g is not None:
            # one assertion group per query: select property ids by label
            sp = sh(cbmc_cmd(q, outd, us + ['--show-properties', '--json-ui']), timeout=300)
            ids = []
            try:
                for o in json.loads(sp['out']):
                    for p in (o.get('properties', []) if isinstance(o, dict) else []):
                        if re.search(g, p.get('description', '')): ids.append(p['name'])
            except ValueError: pass
            if not ids:
                verdict = 'build_error'; rec['error'] = 'no property matches label group %r' % g; break
            for i in ids: extra += ['--property', i]
        v, res, info = run_solver(q, outd, extra, timeout, mem)
        solver_s += sum(a['wall_s'] for a in info['attempts'])
        decided.append(info.get('decided_by'))
        rec.setdefault('attempts', []).extend(info['attempts'])
        if v == 'inconclusive':
            verdict = 'inconclusive'; continue
        allres += res
        if v == 'failure' and verdict == 'success': verdict = 'failure'
    rec['solver_s'] = round(solver_s, 2); rec['decided_by'] = decided
    rec['assertions'] = len(allres)
    rec['assert_labels'] = sorted(set(classify(p.get('description', '')) for p in allres if p.get('description', '').startswith(('prop.', 'alloc.'))))
    fails = [p for p in allres if p.get('status') == 'FAILURE']
    if verdict != 'inconclusive' and verdict != 'build_error':
        verdict = 'failure' if fails else 'success'
    # group failures by label, replay each distinct label once
    seen = {}
    for p in fails:
        lab = classify(p.get('description', ''))
        if lab in seen: continue
        seen[lab] = p
    for lab, p in seen.items():
        f = dict(label=lab, description=p.get('description'), property=p.get('property'))
        if lab == 'unwind' and not q.unwind_is_property:
            f['status'] = 'bound_too_small'
        else:
            inputs = get_trace(q, outd, us, p.get('property'), timeout, mem)
            f['inputs'] = inputs
            kf = match_finding(findings, q.name, lab)
            try:
                exe = build_native(q.src, q.defs, q.rt, os.path.join(tud, 'native'))
                nr = run_native(exe, q.entry, inputs or [], timeout=20 if lab == 'unwind' else 60, params=q.params)
                conf = replay_confirms(nr, lab)
                f['native'] = conf; f['native_tail'] = (nr['out'] + nr['err'])[-1500:]
                if not conf and q.memcheck:
                    exe2 = build_native(q.src, q.defs, q.rt, os.path.join(tud, 'native'), tag='native_memcheck', flags=MEMCHECK_FLAGS)
                    nr2 = run_native(exe2, q.entry, inputs or [], timeout=300, params=q.params, wrapper=['valgrind', '-q', '--error-exitcode=79', '--num-callers=30'])
                    conf = memcheck_confirms(nr2)
                    if conf: f['native'] = conf; f['native_tail'] = (nr2['out'] + nr2['err'])[-2500:]
            except BuildError as e:
                conf = None; f['native'] = 'build_error'; f['native_tail'] = str(e)[-1500:]
            if kf: f['status'] = 'known_finding'; f['finding'] = kf['text']
            elif conf: f['status'] = 'confirmed'
            else: f['status'] = 'unconfirmed'
        rec['failures'].append(f)
    # the native run stops at its first failing assertion: a counterexample for a later assertion of the same harness that natively
    # trips an earlier assertion which the solver also refuted is shadowed by that (reported) failure, not unconfirmed
    failing = set(f['label'] for f in rec['failures'])
    for f in rec['failures']:
        if f.get('status') == 'unconfirmed':
            m = re.search(r'VP_CHECK_FAIL (\S+)', f.get('native_tail') or '')
            if m and m.group(1) in failing and m.group(1) != f['label']: f['status'] = 'shadowed'; f['shadowed_by'] = m.group(1)
    rec['verdict'] = verdict
    rec['wall_s'] = round(time.time() - t0, 2)
    return rec

# ---------------------------------------------------------------------------------------------- check
def load_prop(pid):
    p = os.path.join(ROOT, 'props', pid + '.py')
    spec = importlib.util.spec_from_file_location('props_' + pid, p)
    mod = importlib.util.module_from_spec(spec)
    mod.Q = Q
    spec.loader.exec_module(mod)
    return mod

def check(pid, tier, only=None, keep=False, jobs=None, list_only=False):
    t0 = time.time()
    seed = int(os.environ.get('VERIF_SEED', '0') or 0)
    mod = load_prop(pid)
    qs = mod.queries(tier, seed)
    qs = [q for q in qs if tier == 'thorough' or q.tier == 'quick']
    if only: qs = [q for q in qs if re.search(only, q.name)]
    if os.environ.get('GV_SAMPLE'):   # development aid: a deterministic sample of the thorough-only queries (no evidence file is written)
        k = int(os.environ['GV_SAMPLE'])
        qs = sorted([q for q in qs if q.tier != 'quick'], key=lambda q: hashlib.sha1((q.name + str(seed)).encode()).hexdigest())[:k]
    names = [q.name for q in qs]
    assert len(names) == len(set(names)), 'duplicate query names: %s' % [n for n in names if names.count(n) > 1][:5]
    if list_only:
        for q in qs: print(q.name, q.src, q.entry, q.defs)
        return 0
    wdir = os.path.join(WORK, '%s_%s_%d' % (pid, tier, os.getpid()))
    shutil.rmtree(wdir, ignore_errors=True); os.makedirs(wdir)
    findings = load_findings(pid)
    recs = []
    jobs = jobs or int(os.environ.get('GV_JOBS', '16'))
    with ThreadPoolExecutor(max_workers=jobs) as ex:
        futs = {ex.submit(run_query, pid, q, wdir, tier, findings): q for q in qs}
        for fu in as_completed(futs):
            q = futs[fu]
            try: rec = fu.result()
            except Exception as e:
                rec = dict(query=q.name, verdict='build_error', error='%s: %s' % (type(e).__name__, e), failures=[], assertions=0, shape=q.shape, harness=q.src, entry=q.entry)
            recs.append(rec)
            with open(os.path.join(wdir, 'progress.log'), 'a') as pl:
                pl.write('%-60s %-12s %7.1fs solver=%6.1fs asserts=%d %s\n' % (rec['query'], rec['verdict'], rec.get('wall_s', 0), rec.get('solver_s', 0), rec.get('assertions', 0),
                         ','.join('%s:%s' % (f['label'], f['status']) for f in rec['failures'])))
            if os.environ.get('GV_VERBOSE'):
                sys.stderr.write('[%s] %-50s %-12s %6.1fs asserts=%d %s\n' % (pid, rec['query'], rec['verdict'], rec.get('wall_s', 0), rec.get('assertions', 0),
                                 ','.join('%s:%s' % (f['label'], f['status']) for f in rec['failures'])))
    recs.sort(key=lambda r: r['query'])
    violations = []; known = []; problems = []
    rdir = os.path.join(ROOT, 'replay', pid)
    for rec in recs:
        q = [x for x in qs if x.name == rec['query']][0]
        if rec['verdict'] == 'build_error':
            # a harness that no longer builds against /repo: compile errors located in /repo/include are violations of that configuration
            err = rec.get('error', '')
            kf = match_finding(findings, rec['query'], 'build')
            if kf: known.append((rec['query'], 'build', kf['text']))
            elif re.search(r'%s[^\n]*error' % re.escape(INC), err) or re.search(r'include/boost/gil[^\n]*: error', err):
                os.makedirs(rdir, exist_ok=True)
                rp = os.path.join(rdir, re.sub(r'[^A-Za-z0-9_.-]', '_', rec['query']) + '.build.json')
                json.dump(dict(property=pid, query=rec['query'], kind='build_error', src=q.src, defs=q.defs, entry=q.entry, error=err[-4000:]), open(rp, 'w'), indent=1)
                violations.append((rec['query'], 'build', rp))
            else: problems.append('BUILD-ERROR query=%s %s' % (rec['query'], err[-800:].replace('\n', ' | ')))
            continue
        if rec.get('witness') == 'error' and rec['verdict'] == 'inconclusive' and not q.bughunt:
            # the witness run died (memory cap) on a query that has no verdict either: a resource limit, already reported as inconclusive
            rec['note_witness'] = 'witness twin ended with a tool error (resource limit): ' + (rec.get('witness_error') or '')[-200:]
        elif rec.get('witness') in ('UNREACHABLE', 'error') and not q.bughunt:
            problems.append('VACUOUS query=%s witness=%s' % (rec['query'], rec.get('witness')))
        elif rec.get('witness') != 'reachable' and not q.bughunt and rec['verdict'] == 'success':
            # no verdict for the witness twin: the query's own verdict is not counted as covered
            rec['verdict'] = 'inconclusive'; rec['note_witness'] = 'witness twin had no verdict within the cap'
        if rec['verdict'] == 'inconclusive':
            problems_soft = 'INCONCLUSIVE query=%s (no verdict within cap; not counted as covered)' % rec['query']
            print(problems_soft)
        for f in rec['failures']:
            if f['status'] == 'known_finding': known.append((rec['query'], f['label'], f['finding']))
            elif f['status'] == 'confirmed':
                os.makedirs(rdir, exist_ok=True)
                rp = os.path.join(rdir, re.sub(r'[^A-Za-z0-9_.-]', '_', rec['query'] + '.' + f['label']) + '.json')
                json.dump(dict(property=pid, query=rec['query'], src=q.src, defs=q.defs, entry=q.entry, rt=q.rt, params=q.params, label=f['label'],
                               description=f['description'], inputs=f['inputs'], native=f['native'], native_tail=f['native_tail'], memcheck=bool(q.memcheck)), open(rp, 'w'), indent=1)
                violations.append((rec['query'], f['label'], rp))
            elif f['status'] == 'shadowed':
                pass
            elif f['status'] == 'bound_too_small':
                problems.append('BOUND-TOO-SMALL query=%s (%s %s): an unwinding assertion failed, the query does not cover its stated bound' % (rec['query'], f.get('property'), f['description']))
            else:
                problems.append('UNCONFIRMED query=%s label=%s: solver counterexample did not reproduce natively (%s)' % (rec['query'], f['label'], (f.get('native_tail') or '')[-200:].replace('\n', ' | ')))
    printed = set()
    for qn, lab, text in known:
        key = (text,)
        if key in printed: continue
        printed.add(key)
        print('KNOWN-FINDING: property=%s %s [query=%s label=%s]' % (pid, text, qn, lab))
    for qn, lab, rp in violations:
        print('VIOLATION property=%s replay=%s   (query=%s label=%s)' % (pid, rp, qn, lab))
    for p in problems: print(p)
    wall = time.time() - t0
    write_evidence(pid, tier, seed, recs, qs, violations, known, problems, wall, mod)
    ok = [r for r in recs if r['verdict'] == 'success']
    print('%s %s: %d queries, %d success, %d failure, %d inconclusive, %d build errors, %d assertions discharged, wall %.1fs' % (
        pid, tier, len(recs), len(ok), sum(r['verdict'] == 'failure' for r in recs), sum(r['verdict'] == 'inconclusive' for r in recs),
        sum(r['verdict'] == 'build_error' for r in recs), sum(r.get('assertions', 0) - len(r['failures']) for r in ok), wall))
    if not keep: shutil.rmtree(wdir, ignore_errors=True)
    if violations: return 1
    if problems: return 2
    return 0

def write_evidence(pid, tier, seed, recs, qs, violations, known, problems, wall, mod):
    ok = [r for r in recs if r['verdict'] == 'success' and r.get('witness') == 'reachable']
    funcs = set(); stubs = set()
    for r in recs:
        funcs.update(r.get('gil_functions', []))
    for r in recs: r.pop('gil_functions', None)
    nontrivial = len(set(json.dumps([r['harness'], r['entry'], r['shape']], sort_keys=True) for r in ok if r['assertions'] > 0))
    obligations = sum(r.get('assertions', 0) for r in recs)
    discharged = sum(r.get('assertions', 0) - len([f for f in r['failures']]) for r in recs if r['verdict'] in ('success', 'failure'))
    samples = []
    for r in recs[:3] + recs[-2:]:
        samples.append({k: r.get(k) for k in ('query', 'harness', 'entry', 'shape', 'unwind', 'verdict', 'assertions', 'assert_labels', 'witness', 'solver_s', 'decided_by')})
    ev = dict(
        property_id=pid, tier=tier, seed=seed, level='model_checking',
        coverage=dict(
            evaluations=len(recs), distinct_nontrivial=nontrivial,
            rule='one evaluation = one bounded solver query (harness entry x concrete shape parameters; all data inputs symbolic); it is counted as distinct and non-trivial when its (harness, entry, shape) triple is unique, the solver returned a verdict for every assertion, at least one assertion was generated, and the witness twin proved the end of the harness reachable',
            samples=samples, obligations=obligations, discharged=discharged,
            queries_success=len([r for r in recs if r['verdict'] == 'success']),
            queries_failure=len([r for r in recs if r['verdict'] == 'failure']),
            queries_inconclusive=[r['query'] for r in recs if r['verdict'] == 'inconclusive'],
            queries_build_error=[r['query'] for r in recs if r['verdict'] == 'build_error'],
            solver_seconds=round(sum(r.get('solver_s', 0) for r in recs), 1),
            gil_functions_encoded=len(funcs), gil_functions_sample=sorted(funcs)[:40],
            bounds=getattr(mod, 'BOUNDS', ''), outside_claim=getattr(mod, 'OUTSIDE', ''),
            checker_cmd='clang++-14 -O1 -emit-llvm | tools/ll2c.py | cbmc ' + ' '.join(CBMC_BASE) + ' --unwind N [--external-sat-solver kissat]',
            exhaustive=False,
            known_findings=[dict(query=a, label=b, text=c) for a, b, c in known],
            problems=problems,
            queries=recs),
        assumptions=list(getattr(mod, 'ASSUMPTIONS', [])) + [
            'clang 14 -O1 IR of the harness TU is the encoded artefact; tools/ll2c.py translates it to C (x86-64 layout)',
            'runtime model rt/*.c stands for the allocator, operator new/delete, the C++ exception ABI and libc (every stub is part of the claim)',
            'single-threaded; sizes, loop bounds and shapes as listed per query; behaviours outside the bound are not claimed',
            'cbmc 6.11 + minisat2/cadical/kissat are trusted'],
        wall_s=round(wall, 2), violations=len(violations))
    os.makedirs(os.path.join(ROOT, 'evidence'), exist_ok=True)
    if not os.environ.get('GV_SAMPLE'): json.dump(ev, open(os.path.join(ROOT, 'evidence', pid + '.json'), 'w'), indent=1)

def selftest(pid, only=None, nvec=6, jobs=8):
    """translator validation: for every distinct (harness, defs, entry, params) of the quick tier build (a) the generated C with gcc
    and (b) the harness natively with clang++, run both on the same input vectors and compare outcomes (VP_DONE / VP_CHECK_FAIL label /
    VP_ASSUME_FAILED).  A difference is a fault of the translator or the runtime model, never a property violation."""
    import random
    mod = load_prop(pid); seed = int(os.environ.get('VERIF_SEED', '0') or 0)
    qs = [q for q in mod.queries('quick', seed) if q.tier == 'quick' and (not only or re.search(only, q.name))]
    seen = set(); uniq = []
    for q in qs:
        k = (q.src, json.dumps(q.defs, sort_keys=True), q.entry)
        if k in seen: continue
        seen.add(k); uniq.append(q)
    wdir = os.path.join(WORK, 'self_%s_%d' % (pid, os.getpid())); shutil.rmtree(wdir, ignore_errors=True); os.makedirs(wdir)
    rnd = random.Random(seed + 12345)
    vecs = [[0] * 400, [1] * 400, [255] * 400] + [[rnd.choice([0, 1, 2, 3, 7, 128, 255, rnd.getrandbits(8), rnd.getrandbits(16), rnd.getrandbits(32)]) for _ in range(400)] for _ in range(nvec)]
    def one(q):
        try:
            tud = build_tu(q, wdir); outd = translate(q, tud)
            exe_n = build_native(q.src, q.defs, q.rt, os.path.join(tud, 'native'))
            exe_g = os.path.join(outd, 'gen_' + q.entry)
            if not os.path.exists(exe_g):
                r = sh(['gcc', '-O0', '-w', '-I', os.path.join(ROOT, 'rt'), '-DENTRY=F_' + q.entry, os.path.join(outd, q.entry + '.c'), os.path.join(ROOT, 'tools', 'diffmain.c')] + rt_files(q) + ['-lm', '-o', exe_g], timeout=600)
                if r['rc'] != 0: return (q.name, 'gen-build-error', r['err'][-300:])
        except BuildError as e: return (q.name, 'build-error', str(e)[-300:])
        diffs = 0
        for v in vecs:
            inp = exe_g + '.in'; open(inp, 'w').write('\n'.join(map(str, v)))
            env = dict(os.environ, VP_PARAMS=','.join(str(int(p)) for p in q.params), ASAN_OPTIONS='detect_leaks=0')
            a = sh([exe_g, inp], timeout=60, env=env); b = sh([exe_n, q.entry, inp], timeout=60, env=env)
            la = (re.findall(r'VP_\w+[^\n]*', a['out']) or ['?'])[-1]; lb = (re.findall(r'VP_\w+[^\n]*', b['out']) or ['?'])[-1]
            if lb == '?' and 'terminate called' in b['err']: lb = 'VP_UNCAUGHT_EXCEPTION'
            if la != lb: diffs += 1; last = (la, lb)
        return (q.name, 'ok' if diffs == 0 else 'DIFF %d/%d %r' % (diffs, len(vecs), last), '')
    bad = 0
    with ThreadPoolExecutor(max_workers=jobs) as ex:
        for name, st, msg in ex.map(one, uniq):
            if st != 'ok': bad += 1; print('%-60s %s %s' % (name, st, msg.replace('\n', ' | ')))
    print('selftest %s: %d distinct harness instances, %d input vectors each, %d disagreements' % (pid, len(uniq), len(vecs), bad))
    shutil.rmtree(wdir, ignore_errors=True)
    return 2 if bad else 0

def replay(path):
    r = json.load(open(path))
    if r.get('kind') == 'build_error':
        q = Q('replay', r['src'], r['entry'], defs=r['defs'])
        d = os.path.join(WORK, 'replay_%d' % os.getpid()); os.makedirs(d, exist_ok=True)
        try:
            build_tu(q, d); print('harness builds: not reproduced'); rc = 0
        except BuildError as e:
            print(str(e)[-3000:]); print('REPRODUCED build error'); rc = 1
        shutil.rmtree(d, ignore_errors=True); return rc
    d = os.path.join(WORK, 'replay_%d' % os.getpid())
    exe = build_native(r['src'], r['defs'], r.get('rt', []), d)
    nr = run_native(exe, r['entry'], r['inputs'], params=r.get('params', []))
    print(nr['out'][-3000:]); print(nr['err'][-3000:])
    c = replay_confirms(nr, r['label'])
    if not c and r.get('memcheck'):
        exe2 = build_native(r['src'], r['defs'], r.get('rt', []), d, tag='native_memcheck', flags=MEMCHECK_FLAGS)
        nr2 = run_native(exe2, r['entry'], r['inputs'], timeout=300, params=r.get('params', []), wrapper=['valgrind', '-q', '--error-exitcode=79', '--num-callers=30'])
        print(nr2['err'][-3000:]); c = memcheck_confirms(nr2)
    print('REPRODUCED: %s' % c if c else 'not reproduced')
    shutil.rmtree(d, ignore_errors=True)
    return 1 if c else 0

def main():
    ap = argparse.ArgumentParser()
    sub = ap.add_subparsers(dest='cmd')
    c = sub.add_parser('check'); c.add_argument('pid'); c.add_argument('--tier', default=os.environ.get('VERIF_TIER', 'quick'))
    c.add_argument('--only'); c.add_argument('--keep', action='store_true'); c.add_argument('-j', type=int); c.add_argument('--list', action='store_true')
    r = sub.add_parser('replay'); r.add_argument('path')
    st = sub.add_parser('selftest'); st.add_argument('pid'); st.add_argument('--only'); st.add_argument('-j', type=int, default=8)
    sub.add_parser('setup')
    a = ap.parse_args()
    if a.cmd == 'check': sys.exit(check(a.pid, a.tier, a.only, a.keep, a.j, a.list))
    if a.cmd == 'replay': sys.exit(replay(a.path))
    if a.cmd == 'selftest': sys.exit(selftest(a.pid, a.only, jobs=a.j))
    if a.cmd == 'setup':
        for t in ('cbmc', CLANG, 'kissat'):
            if not shutil.which(t): print('missing tool', t); sys.exit(1)
        os.makedirs(WORK, exist_ok=True); print('ok'); sys.exit(0)
    ap.print_help(); sys.exit(2)

if __name__ == '__main__':
    main()
