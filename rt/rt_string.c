/* libstdc++ std::string (SSO layout: { char* p; size_t len; union { char local[16]; size_t cap; } }) out-of-line members
 * used by GIL's writers (header text built with std::to_string and operator+=).  Source strings are assumed not to alias
 * the destination (true for the temporaries GIL appends). */
#include "vp_rt.h"
uint8_t* X__Znwm(uint64_t n); void X__ZdlPv(uint8_t* p);
#define S_P(s)   (*(uint8_t**)(s))
#define S_LEN(s) (*(uint64_t*)((s) + 8))
#define S_LOC(s) ((s) + 16)
#define S_CAP(s) (*(uint64_t*)((s) + 16))
static uint64_t s_cap(uint8_t* s) { return S_P(s) == S_LOC(s) ? 15 : S_CAP(s); }
/* make room for newlen characters keeping the first keep characters; returns 0 when the allocation threw */
static int s_grow(uint8_t* s, uint64_t newlen, uint64_t keep) {
  uint64_t cap = s_cap(s);
  if (newlen <= cap) return 1;
  uint64_t nc = newlen < 2 * cap ? 2 * cap : newlen;
  uint8_t* np = X__Znwm(nc + 1);
  if (vp_exc_pending) return 0;
  uint8_t* old = S_P(s);
  for (uint64_t i = 0; i < keep; i++) np[i] = old[i];
  if (old != S_LOC(s)) X__ZdlPv(old);
  S_P(s) = np; S_CAP(s) = nc;
  return 1;
}
void X__ZNSt7__cxx1112basic_stringIcSt11char_traitsIcESaIcEE12_M_constructEmc(uint8_t* s, uint64_t n, uint8_t c) {
  if (n > 15) { uint8_t* np = X__Znwm(n + 1); if (vp_exc_pending) return; S_P(s) = np; S_CAP(s) = n; }
  uint8_t* p = S_P(s);
  for (uint64_t i = 0; i < n; i++) p[i] = c;
  S_LEN(s) = n; p[n] = 0;
}
uint8_t* X__ZNSt7__cxx1112basic_stringIcSt11char_traitsIcESaIcEE9_M_appendEPKcm(uint8_t* s, uint8_t* src, uint64_t n) {
  uint64_t len = S_LEN(s);
  if (!s_grow(s, len + n, len)) return s;
  uint8_t* p = S_P(s);
  for (uint64_t i = 0; i < n; i++) p[len + i] = src[i];
  S_LEN(s) = len + n; p[len + n] = 0;
  return s;
}
uint8_t* X__ZNSt7__cxx1112basic_stringIcSt11char_traitsIcESaIcEE10_M_replaceEmmPKcm(uint8_t* s, uint64_t pos, uint64_t len1, uint8_t* src, uint64_t len2) {
  uint64_t len = S_LEN(s);
  VP_CHECK(pos <= len && len1 <= len - pos, "env.string_replace_range");
  uint64_t tail = len - pos - len1, nl = len - len1 + len2;
  if (!s_grow(s, nl, len)) return s;
  uint8_t* p = S_P(s);
  if (len2 > len1) { for (uint64_t i = tail; i > 0; i--) p[pos + len2 + i - 1] = p[pos + len1 + i - 1]; }
  else if (len2 < len1) { for (uint64_t i = 0; i < tail; i++) p[pos + len2 + i] = p[pos + len1 + i]; }
  for (uint64_t i = 0; i < len2; i++) p[pos + i] = src[i];
  S_LEN(s) = nl; p[nl] = 0;
  return s;
}
void X__ZNSt7__cxx1112basic_stringIcSt11char_traitsIcESaIcEE9_M_mutateEmmPKcm(uint8_t* s, uint64_t pos, uint64_t len1, uint8_t* src, uint64_t len2) {
  X__ZNSt7__cxx1112basic_stringIcSt11char_traitsIcESaIcEE10_M_replaceEmmPKcm(s, pos, len1, src, len2);
}
