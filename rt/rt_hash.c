/* Runtime model for the one out-of-line libstdc++ function behind std::unordered_map (gil::histogram, C19):
 *   std::pair<bool, std::size_t> std::__detail::_Prime_rehash_policy::_M_need_rehash(size_t n_bkt, size_t n_elt, size_t n_ins) const
 * Follows libstdc++'s hashtable_c++0x.cc: growth factor 2, at least 11 buckets on the first insertion, next bucket count taken
 * from the prime list; max_load_factor must be 1.0 (the default; anything else fails the query).  With the default load
 * factor the bucket sequence is 1 -> 13 -> 29 -> 59 -> 127; more than 127 elements are outside the model (env.rehash_model_bound).
 * Policy object layout (x86-64): float _M_max_load_factor at offset 0, size_t _M_next_resize at offset 8 (mutable).
 * Return type: the translator's by-value mirror of LLVM's { i8, i64 }. */
#include "vp_rt.h"
typedef struct vp_rehash_ret { uint8_t f0; uint64_t f1; } vp_rehash_ret;
static const uint8_t vp_fast_bkt[14] = { 2, 2, 2, 3, 5, 5, 7, 7, 11, 11, 11, 11, 13, 13 };
static const uint8_t vp_primes[] = { 17, 19, 23, 29, 31, 37, 41, 43, 47, 53, 59, 61, 67, 71, 73, 79, 83, 89, 97, 103, 109, 113, 127 };
static uint64_t vp_next_bkt(uint8_t* pol, uint64_t n) {
  if (n < 14) {
    if (n == 0) return 1;
    *(uint64_t*)(pol + 8) = vp_fast_bkt[n];          /* floor(prime * 1.0) */
    return vp_fast_bkt[n];
  }
  uint64_t p = 0;
  for (unsigned i = 0; i < sizeof(vp_primes); i++) if (p == 0 && vp_primes[i] >= n) p = vp_primes[i];
  VP_CHECK(p != 0, "env.rehash_model_bound");
  VP_ASSUME(p != 0);
  *(uint64_t*)(pol + 8) = p;
  return p;
}
vp_rehash_ret X__ZNKSt8__detail20_Prime_rehash_policy14_M_need_rehashEmmm(uint8_t* pol, uint64_t n_bkt, uint64_t n_elt, uint64_t n_ins) {
  vp_rehash_ret r; r.f0 = 0; r.f1 = 0;
  float load = *(float*)pol;
  VP_CHECK(load == 1.0f, "env.rehash_model_load_factor_is_one");
  VP_ASSUME(load == 1.0f);
  uint64_t next_resize = *(uint64_t*)(pol + 8);
  if (n_elt + n_ins > next_resize) {
    uint64_t min_bkts = n_elt + n_ins;
    if (next_resize == 0 && min_bkts < 11) min_bkts = 11;
    if (min_bkts >= n_bkt) {
      uint64_t want = min_bkts + 1, grow = n_bkt * 2;
      r.f0 = 1; r.f1 = vp_next_bkt(pol, want > grow ? want : grow);
      return r;
    }
    *(uint64_t*)(pol + 8) = n_bkt;                   /* floor(n_bkt * 1.0) */
  }
  return r;
}
