/* Runtime model shared by every generated C file (the environment of each claim).
 * Compiled by CBMC (__CPROVER__ defined) for the solver runs and by gcc for the
 * translator-validation (differential) runs. */
#ifndef VP_RT_H
#define VP_RT_H
#include <stdint.h>
#include <stddef.h>
#include <string.h>
#include <math.h>
#include <stdlib.h>
#ifdef __CPROVER__
#define VP_CHECK(c, msg) __CPROVER_assert((c), msg)
#define VP_ASSUME(c) __CPROVER_assume(c)
#else
#include <stdio.h>
void vp_fail(const char*); void vp_assume_fail(void);
#define VP_CHECK(c, msg) do { if (!(c)) { vp_fail(msg); } } while (0)
#define VP_ASSUME(c) do { if (!(c)) vp_assume_fail(); } while (0)
#define __CPROVER_assume(c) VP_ASSUME(c)
#endif
#ifdef VP_NSW
#define VP_CHECK_NSW(c, msg) VP_CHECK(c, msg)
#else
#define VP_CHECK_NSW(c, msg) ((void)0)
#endif
#define BITCAST(ft, tt, a) (((union { ft f_; tt t_; }){ .f_ = (a) }).t_)
extern int vp_exc_pending; extern uint8_t* vp_exc_obj; extern uint8_t* vp_exc_type;
int vp_exc_matches(uint8_t* ti); uint32_t vp_typeid_for(uint8_t* ti);
uint64_t vp_ptrtoint(uint8_t* p); uint8_t* vp_inttoptr(uint64_t x);
uint8_t* vp_alloca(uint64_t n);
/* p - q as integers; identical to vp_ptrtoint(p) - vp_ptrtoint(q), stated so that the difference inside one object folds to a constant */
static inline uint64_t vp_ptrdiff(uint8_t* p, uint8_t* q) {
#ifdef __CPROVER__
  if (__CPROVER_same_object(p, q)) return (uint64_t)((int64_t)__CPROVER_POINTER_OFFSET(p) - (int64_t)__CPROVER_POINTER_OFFSET(q));
#endif
  return vp_ptrtoint(p) - vp_ptrtoint(q); }
#ifndef VP_RT_LOOP_MAX
#define VP_RT_LOOP_MAX 4096
#endif
static inline void vp_memcpy(uint8_t* d, uint8_t* s, uint64_t n) { for (uint64_t i = 0; i < n; i++) d[i] = s[i]; }
static inline void vp_memmove(uint8_t* d, uint8_t* s, uint64_t n) {
  if (n == 0) return;
  if (vp_ptrtoint(d) <= vp_ptrtoint(s)) { for (uint64_t i = 0; i < n; i++) d[i] = s[i]; }
  else { for (uint64_t i = n; i > 0; i--) d[i-1] = s[i-1]; } }
static inline void vp_memset(uint8_t* d, uint8_t v, uint64_t n) { for (uint64_t i = 0; i < n; i++) d[i] = v; }
uint8_t nondet_uint8_t(void); uint16_t nondet_uint16_t(void); uint32_t nondet_uint32_t(void); uint64_t nondet_uint64_t(void);
unsigned __int128 nondet_unsigned___int128(void);
float nondet_float(void); double nondet_double(void);
static inline uint32_t vp_ctpop64(uint64_t x) { uint32_t c = 0; for (int i = 0; i < 64; i++) c += (x >> i) & 1; return c; }
static inline uint64_t vp_ctlz_n(uint64_t x, int n) { int c = 0; for (int i = n - 1; i >= 0; i--) { if ((x >> i) & 1) break; c++; } return c; }
static inline uint64_t vp_cttz_n(uint64_t x, int n) { int c = 0; for (int i = 0; i < n; i++) { if ((x >> i) & 1) break; c++; } return c; }
#define vp_ctpop8(x) ((uint8_t)vp_ctpop64((uint8_t)(x)))
#define vp_ctpop16(x) ((uint16_t)vp_ctpop64((uint16_t)(x)))
#define vp_ctpop32(x) ((uint32_t)vp_ctpop64((uint32_t)(x)))
#define vp_ctlz8(x) ((uint8_t)vp_ctlz_n((uint8_t)(x), 8))
#define vp_ctlz16(x) ((uint16_t)vp_ctlz_n((uint16_t)(x), 16))
#define vp_ctlz32(x) ((uint32_t)vp_ctlz_n((uint32_t)(x), 32))
#define vp_ctlz64(x) ((uint64_t)vp_ctlz_n((uint64_t)(x), 64))
#define vp_cttz8(x) ((uint8_t)vp_cttz_n((uint8_t)(x), 8))
#define vp_cttz16(x) ((uint16_t)vp_cttz_n((uint16_t)(x), 16))
#define vp_cttz32(x) ((uint32_t)vp_cttz_n((uint32_t)(x), 32))
#define vp_cttz64(x) ((uint64_t)vp_cttz_n((uint64_t)(x), 64))
static inline uint16_t vp_bswap16(uint16_t x) { return (uint16_t)((x >> 8) | (x << 8)); }
static inline uint32_t vp_bswap32(uint32_t x) { return (x >> 24) | ((x >> 8) & 0xff00u) | ((x << 8) & 0xff0000u) | (x << 24); }
static inline uint64_t vp_bswap64(uint64_t x) { return ((uint64_t)vp_bswap32((uint32_t)x) << 32) | vp_bswap32((uint32_t)(x >> 32)); }
void vp_init_globals(void);
void vp_rt_init(void);
#endif
