/* FILE* model: one in-memory file behind fopen/fread/fwrite/getc/fseek/ftell/ferror/fflush/fclose.
 * Short reads at end of file exactly as libc; no I/O errors other than EOF (ferror == 0); capacity VP_FILE_MAX bytes
 * (a write beyond it fails the query with env.file_capacity).  Natively (replay) the harness uses real libc streams
 * over a temporary file with the same contents (see native_rt.cpp), so this file is empty there. */
#include "vp_rt.h"
#ifndef VP_FILE_MAX
#define VP_FILE_MAX 256
#endif
uint8_t vp_file[VP_FILE_MAX]; uint64_t vp_file_len; static int64_t vp_file_pos; static int vp_file_open; static int vp_file_eof;
static uint8_t vp_FILE_obj[16];
uint8_t X_vp_nondet_u8(void);
/* harness interface */
uint8_t* X_vp_file_data(void) { return vp_file; }
uint64_t X_vp_file_size(void) { return vp_file_len; }
void X_vp_file_init(uint64_t len) {   /* file of exactly len bytes (concrete), every byte symbolic and logged */
  VP_CHECK(len <= VP_FILE_MAX, "env.file_capacity");
  vp_file_len = len;
  for (uint64_t i = 0; i < len; i++) vp_file[i] = X_vp_nondet_u8();
}
void X_vp_file_set_len(uint64_t len) { VP_CHECK(len <= VP_FILE_MAX, "env.file_capacity"); vp_file_len = len; }
uint8_t* X_vp_fopen_read(void) { VP_CHECK(!vp_file_open, "env.one_stream_at_a_time"); vp_file_pos = 0; vp_file_open = 1; vp_file_eof = 0; return vp_FILE_obj; }
uint8_t* X_vp_fopen_write(void) { VP_CHECK(!vp_file_open, "env.one_stream_at_a_time"); vp_file_pos = 0; vp_file_len = 0; vp_file_open = 2; vp_file_eof = 0; return vp_FILE_obj; }
uint8_t* X_vp_file_name(void) { static uint8_t nm[8] = { 'v', 'p', 'f', 'i', 'l', 'e', 0, 0 }; return nm; }
uint32_t X_vp_file_is_open(void) { return vp_file_open != 0; }
/* libc */
uint8_t* X_fopen(uint8_t* name, uint8_t* mode) {
  if (vp_file_open) return 0;
  if (mode[0] == 'w') return X_vp_fopen_write();
  return X_vp_fopen_read();
}
uint64_t X_fread(uint8_t* buf, uint64_t sz, uint64_t cnt, uint8_t* f) {
  VP_CHECK(f == vp_FILE_obj && vp_file_open, "env.fread_on_open_stream");
  uint64_t want = sz * cnt, got = 0;
  for (uint64_t i = 0; i < want; i++) {
    if (vp_file_pos < 0 || (uint64_t)vp_file_pos >= vp_file_len) { vp_file_eof = 1; break; }
    buf[i] = vp_file[vp_file_pos++]; got++; }
  return sz ? got / sz : 0;
}
uint64_t X_fwrite(uint8_t* buf, uint64_t sz, uint64_t cnt, uint8_t* f) {
  VP_CHECK(f == vp_FILE_obj && vp_file_open == 2, "env.fwrite_on_write_stream");
  uint64_t want = sz * cnt;
  for (uint64_t i = 0; i < want; i++) {
    VP_CHECK(vp_file_pos >= 0 && (uint64_t)vp_file_pos < VP_FILE_MAX, "env.file_capacity"); VP_ASSUME((uint64_t)vp_file_pos < VP_FILE_MAX);
    vp_file[vp_file_pos++] = buf[i];
    if ((uint64_t)vp_file_pos > vp_file_len) vp_file_len = (uint64_t)vp_file_pos; }
  return cnt;
}
uint32_t X_getc(uint8_t* f) {
  VP_CHECK(f == vp_FILE_obj && vp_file_open, "env.getc_on_open_stream");
  if (vp_file_pos < 0 || (uint64_t)vp_file_pos >= vp_file_len) { vp_file_eof = 1; return (uint32_t)-1; }
  return vp_file[vp_file_pos++];
}
uint32_t X_fgetc(uint8_t* f) { return X_getc(f); }
uint32_t X_ungetc(uint32_t c, uint8_t* f) { if (vp_file_pos > 0) { vp_file_pos--; return c; } return (uint32_t)-1; }
uint32_t X_ferror(uint8_t* f) { return 0; }
uint32_t X_feof(uint8_t* f) { return (uint32_t)vp_file_eof; }
uint32_t X_fflush(uint8_t* f) { return 0; }
uint32_t X_fseek(uint8_t* f, uint64_t off, uint32_t whence) {
  int64_t o = (int64_t)off; int64_t np = whence == 0 ? o : whence == 1 ? vp_file_pos + o : (int64_t)vp_file_len + o;
  if (np < 0) return (uint32_t)-1;
  vp_file_pos = np; vp_file_eof = 0; return 0; }
uint64_t X_ftell(uint8_t* f) { return (uint64_t)vp_file_pos; }
uint32_t X_fclose(uint8_t* f) { VP_CHECK(f == vp_FILE_obj && vp_file_open, "env.fclose_once"); vp_file_open = 0; return 0; }
uint32_t X_fputs(uint8_t* s, uint8_t* f) { uint64_t n = 0; while (s[n]) n++; X_fwrite(s, 1, n, f); return 1; }
