// Native counterpart of the runtime model: used to replay solver counterexamples (ASan/UBSan build of the real
// harness against the real GIL headers) and for the translator-validation runs.  The C runtime model (vp_rt.c ...)
// is compiled natively and linked in; this file maps the harness-side vp_* calls onto it and feeds the inputs.
#include <cstdio>
#include <cstdlib>
#include <cstring>
#include <cstdint>
#include <dlfcn.h>
#include <unistd.h>
#include <vector>
#include <fstream>
extern "C" {
uint8_t X_vp_nondet_u8(void); uint16_t X_vp_nondet_u16(void); uint32_t X_vp_nondet_u32(void); uint32_t X_vp_nondet_int(void);
uint64_t X_vp_nondet_u64(void); float X_vp_nondet_float(void); double X_vp_nondet_double(void);
uint8_t* X_vp_alloc(uint64_t, uint32_t); void X_vp_free(uint8_t*, uint64_t, uint32_t); void X_vp_set_fail_at(uint32_t);
uint32_t X_vp_alloc_calls(void); uint32_t X_vp_live_blocks(void); uint32_t X_vp_live_blocks_of(uint32_t); uint64_t X_vp_block_size_of(uint8_t*);
uint32_t X_vp_in_live_block(uint8_t*, uint64_t, uint32_t); void X_vp_check_no_leak(void); uint64_t X_vp_addr(uint8_t*);
uint8_t* X_vp_buf(uint64_t); void X_vp_buf_free(uint8_t*);
void vp_rt_init(void);

static char g_tmp[64]; static void vp_cleanup() { if (g_tmp[0]) remove(g_tmp); }
static std::vector<uint64_t> g_in; static size_t g_pos; static std::vector<uint32_t> g_par;
uint32_t X_vp_param(uint32_t);
uint32_t vp_native_param(uint32_t k) { return k < g_par.size() ? g_par[k] : 0; }
int vp_param(int k) { return (int)X_vp_param((uint32_t)k); }
uint64_t vp_next_input(void) { return g_pos < g_in.size() ? g_in[g_pos++] : 0; }
void vp_fail(const char* msg) { printf("VP_CHECK_FAIL %s\n", msg); fflush(stdout); vp_cleanup(); _Exit(3); }
void vp_assume_fail(void) { printf("VP_ASSUME_FAILED\n"); fflush(stdout); vp_cleanup(); _Exit(4); }

unsigned char vp_nondet_u8(void) { return X_vp_nondet_u8(); }
unsigned short vp_nondet_u16(void) { return X_vp_nondet_u16(); }
unsigned int vp_nondet_u32(void) { return X_vp_nondet_u32(); }
int vp_nondet_int(void) { return (int)X_vp_nondet_int(); }
unsigned long vp_nondet_u64(void) { return X_vp_nondet_u64(); }
float vp_nondet_float(void) { return X_vp_nondet_float(); }
double vp_nondet_double(void) { return X_vp_nondet_double(); }
void vp_assume(int c) { if (!c) vp_assume_fail(); }
void vp_assert(int c, const char* m) { if (!c) { printf("VP_CHECK_FAIL prop.%s\n", m); fflush(stdout); vp_cleanup(); _Exit(3); } }
void* vp_alloc(unsigned long n, int id) { return X_vp_alloc(n, (uint32_t)id); }
void vp_free(void* p, unsigned long n, int id) { X_vp_free((uint8_t*)p, n, (uint32_t)id); }
void vp_set_fail_at(int k) { X_vp_set_fail_at((uint32_t)k); }
int vp_alloc_calls(void) { return (int)X_vp_alloc_calls(); }
int vp_live_blocks(void) { return (int)X_vp_live_blocks(); }
int vp_live_blocks_of(int id) { return (int)X_vp_live_blocks_of((uint32_t)id); }
unsigned long vp_block_size_of(void* p) { return X_vp_block_size_of((uint8_t*)p); }
int vp_in_live_block(void const* p, unsigned long n, int id) { return (int)X_vp_in_live_block((uint8_t*)p, n, (uint32_t)id); }
void vp_check_no_leak(void) { X_vp_check_no_leak(); }
unsigned long vp_addr(void const* p) { return X_vp_addr((uint8_t*)p); }
void* vp_buf(unsigned long n) { return X_vp_buf(n); }
void vp_buf_free(void* p) { X_vp_buf_free((uint8_t*)p); }
int vp_new_live(void) { return 0; }
void X_vp_fill_n(uint8_t*, uint64_t);
void vp_fill_n(void* p, unsigned long n) { X_vp_fill_n((uint8_t*)p, n); }
}
// ---- native file model: the same bytes in a real temporary file, accessed through real libc streams
static unsigned char g_file[1 << 16]; static size_t g_file_len; static bool g_written;
static const char* tmp_name() { if (!g_tmp[0]) { snprintf(g_tmp, sizeof g_tmp, "/tmp/vpfile_%d", (int)getpid()); } return g_tmp; }
static void commit() { FILE* f = fopen(tmp_name(), "wb"); if (f) { fwrite(g_file, 1, g_file_len, f); fclose(f); } }
extern "C" {
unsigned char* vp_file_data(void) { return g_file; }
unsigned long vp_file_size(void) { if (g_written) { FILE* f = fopen(tmp_name(), "rb"); if (f) { g_file_len = fread(g_file, 1, sizeof g_file, f); fclose(f); } } return g_file_len; }
void vp_file_init(unsigned long len) { g_file_len = len; for (unsigned long i = 0; i < len; ++i) g_file[i] = X_vp_nondet_u8(); g_written = false; }
void vp_file_set_len(unsigned long len) { g_file_len = len; }
FILE* vp_fopen_read(void) { if (!g_written) commit(); return fopen(tmp_name(), "rb"); }
FILE* vp_fopen_write(void) { g_written = true; return fopen(tmp_name(), "wb"); }
const char* vp_file_name(void) { if (!g_written) commit(); return tmp_name(); }
int vp_file_is_open(void) { return 0; }
static std::ifstream g_ifs;
static std::ofstream g_ofs;
void* vp_ostream(void) { g_written = true; if (g_ofs.is_open()) g_ofs.close(); g_ofs.clear(); g_ofs.open(tmp_name(), std::ios::binary | std::ios::trunc); return static_cast<std::ostream*>(&g_ofs); }
void vp_ostream_done(void) { if (g_ofs.is_open()) g_ofs.close(); }
void* vp_istream(void) { if (!g_written) commit(); if (g_ifs.is_open()) g_ifs.close(); g_ifs.clear(); g_ifs.open(tmp_name(), std::ios::binary); return static_cast<std::istream*>(&g_ifs); }
}
int main(int argc, char** argv) {
    atexit(vp_cleanup);
    if (argc < 3) { fprintf(stderr, "usage: native <entry> <inputs-file>\n"); return 2; }
    FILE* f = fopen(argv[2], "r");
    if (f) { unsigned long long v; while (fscanf(f, "%llu", &v) == 1) g_in.push_back(v); fclose(f); }
    if (const char* ps = getenv("VP_PARAMS")) { const char* c = ps; while (*c) { g_par.push_back((uint32_t)strtol(c, (char**)&c, 10)); if (*c == ',') ++c; } }
    void (*fn)(void) = (void (*)(void))dlsym(RTLD_DEFAULT, argv[1]);
    if (!fn) { fprintf(stderr, "no entry %s\n", argv[1]); return 2; }
    vp_rt_init();
    fn();
    printf("VP_DONE\n");
    return 0;
}
