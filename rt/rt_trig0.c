/* Runtime model for cos / sin at the single argument +-0 (C17: resize_view builds matrix3x2::get_rotate(-0.0)).
 * C Annex F / IEEE 754: cos(+-0) = 1 exactly, sin(+-0) = +-0 exactly.  Any other argument is an unmodelled call and fails the query
 * (env.unmodelled_external:cos / :sin), exactly as if this module were not linked. */
#include "vp_rt.h"
double X_cos(double x) { if (x == 0.0) return 1.0; VP_CHECK(0, "env.unmodelled_external:cos"); VP_ASSUME(0); return 0.0; }
double X_sin(double x) { if (x == 0.0) return x;   VP_CHECK(0, "env.unmodelled_external:sin"); VP_ASSUME(0); return 0.0; }
