/* std::istream model over the in-memory file of rt_file.c (used through GIL's istream_device).
 * The object is a fake std::istream: { vptr, _M_gcount } followed by the std::ios_base part, reached - exactly as the inline
 * fail()/operator! of libstdc++ does - through the virtual-base offset stored at vptr[-3]; the stream state word sits at
 * ios_base + 32 (layout of the installed libstdc++, verified by a native probe: tools/probe_ios.cpp).
 * State transitions follow libstdc++: every unformatted input function constructs a sentry (if !good(): setstate(failbit));
 * get() at end of file sets eofbit|failbit, peek() at end of file sets eofbit, readsome() reads what is available,
 * seekg() clears eofbit first and fails (failbit) outside [0, size]. */
#include "vp_rt.h"
extern uint8_t vp_file[]; extern uint64_t vp_file_len;
#define IOS_STATE_OFF 32
#define VBASE_OFF 16
/* typed so that the model checker keeps the v-pointer a pointer (a pointer stored into a byte array is not constant-propagated) */
static struct { int64_t* vptr; int64_t gcount; uint8_t ios_a[IOS_STATE_OFF]; uint32_t state; uint8_t ios_b[28]; } vp_is __attribute__((aligned(16)));
#define vp_is_obj ((uint8_t*)&vp_is)
static int64_t vp_is_vtbl[4];
static int64_t vp_is_pos;
#define ST(s) (vp_is.state)   /* the inline fail() of libstdc++ reaches the same word through vptr[-3] */
#define GC(s) (vp_is.gcount)
enum { BADBIT = 1, EOFBIT = 2, FAILBIT = 4 };
uint8_t* X_vp_istream(void) {
  vp_is_vtbl[0] = VBASE_OFF; vp_is_vtbl[1] = 0; vp_is_vtbl[2] = 0;
  vp_is.vptr = &vp_is_vtbl[3];
  ST(vp_is_obj) = 0; GC(vp_is_obj) = 0; vp_is_pos = 0;
  return vp_is_obj;
}
static int sentry(uint8_t* s) { if (ST(s) != 0) { ST(s) |= FAILBIT; return 0; } return 1; }
uint32_t X__ZNSi3getEv(uint8_t* s) {
  GC(s) = 0;
  if (!sentry(s)) return (uint32_t)-1;
  if ((uint64_t)vp_is_pos < vp_file_len) { GC(s) = 1; return vp_file[vp_is_pos++]; }
  ST(s) |= EOFBIT | FAILBIT; return (uint32_t)-1;
}
uint32_t X__ZNSi4peekEv(uint8_t* s) {
  GC(s) = 0;
  if (!sentry(s)) return (uint32_t)-1;
  if ((uint64_t)vp_is_pos < vp_file_len) return vp_file[vp_is_pos];
  ST(s) |= EOFBIT; return (uint32_t)-1;
}
uint64_t X__ZNSi8readsomeEPcl(uint8_t* s, uint8_t* buf, uint64_t n) {
  GC(s) = 0;
  if (!sentry(s)) return 0;
  uint64_t avail = vp_file_len - (uint64_t)vp_is_pos, k = (int64_t)n < 0 ? 0 : (n < avail ? n : avail);
  for (uint64_t i = 0; i < k; i++) buf[i] = vp_file[vp_is_pos + (int64_t)i];
  vp_is_pos += (int64_t)k; GC(s) = (int64_t)k;
  return k;
}
uint8_t* X__ZNSi4readEPcl(uint8_t* s, uint8_t* buf, uint64_t n) {
  GC(s) = 0;
  if (!sentry(s)) return s;
  uint64_t avail = vp_file_len - (uint64_t)vp_is_pos, k = n < avail ? n : avail;
  for (uint64_t i = 0; i < k; i++) buf[i] = vp_file[vp_is_pos + (int64_t)i];
  vp_is_pos += (int64_t)k; GC(s) = (int64_t)k;
  if (k < n) ST(s) |= EOFBIT | FAILBIT;
  return s;
}
uint8_t* X__ZNSi5seekgElSt12_Ios_Seekdir(uint8_t* s, uint64_t off, uint32_t dir) {
  ST(s) &= ~(uint32_t)EOFBIT;
  if (ST(s) & (FAILBIT | BADBIT)) return s;
  int64_t np = dir == 0 ? (int64_t)off : dir == 1 ? vp_is_pos + (int64_t)off : (int64_t)vp_file_len + (int64_t)off;
  if (np < 0 || (uint64_t)np > vp_file_len) { ST(s) |= FAILBIT; return s; }
  vp_is_pos = np; return s;
}
typedef struct { uint64_t f0; uint64_t f1; } vp_fpos;
vp_fpos X__ZNSi5tellgEv(uint8_t* s) {
  vp_fpos r; r.f1 = 0;
  r.f0 = (ST(s) & (FAILBIT | BADBIT)) ? (uint64_t)-1 : (uint64_t)vp_is_pos;
  return r;
}

/* ---- std::ostream model: unformatted write()/put()/flush()/seekp()/tellp() and character-sequence insertion (operator<< of a
 * std::string or C string ends in std::__ostream_insert) append to / overwrite the in-memory file of rt_file.c.
 * Object layout as libstdc++: { vptr } followed by the std::ios_base part at the virtual-base offset stored at vptr[-3] (8);
 * the state word at ios_base + 32.  No badbit, no width/fill formatting (GIL never sets them). */
#ifndef VP_FILE_MAX
#define VP_FILE_MAX 256
#endif
static struct { int64_t* vptr; uint8_t ios_a[IOS_STATE_OFF]; uint32_t state; uint8_t ios_b[28]; } vp_os __attribute__((aligned(16)));
static int64_t vp_os_vtbl[4];
static int64_t vp_os_pos;
uint8_t* X_vp_ostream(void) {
  vp_os_vtbl[0] = 8; vp_os_vtbl[1] = 0; vp_os_vtbl[2] = 0;
  vp_os.vptr = &vp_os_vtbl[3];
  vp_os.state = 0; vp_os_pos = 0; vp_file_len = 0;
  return (uint8_t*)&vp_os;
}
void X_vp_ostream_done(void) { }
static void os_put(uint8_t* buf, uint64_t n) {
  for (uint64_t i = 0; i < n; i++) {
    VP_CHECK(vp_os_pos >= 0 && (uint64_t)vp_os_pos < VP_FILE_MAX, "env.file_capacity"); VP_ASSUME((uint64_t)vp_os_pos < VP_FILE_MAX);
    vp_file[vp_os_pos++] = buf[i];
    if ((uint64_t)vp_os_pos > vp_file_len) vp_file_len = (uint64_t)vp_os_pos; }
}
uint8_t* X__ZNSo5writeEPKcl(uint8_t* s, uint8_t* buf, uint64_t n) { if (vp_os.state == 0 && (int64_t)n > 0) os_put(buf, n); return s; }
uint8_t* X__ZNSo3putEc(uint8_t* s, uint8_t c) { if (vp_os.state == 0) os_put(&c, 1); return s; }
uint8_t* X__ZNSo5flushEv(uint8_t* s) { return s; }
uint8_t* X__ZSt16__ostream_insertIcSt11char_traitsIcEERSt13basic_ostreamIT_T0_ES6_PKS3_l(uint8_t* s, uint8_t* buf, uint64_t n) {
  if (vp_os.state == 0 && (int64_t)n > 0) os_put(buf, n); return s; }
uint8_t* X__ZNSo5seekpElSt12_Ios_Seekdir(uint8_t* s, uint64_t off, uint32_t dir) {
  if (vp_os.state & (FAILBIT | BADBIT)) return s;
  int64_t np = dir == 0 ? (int64_t)off : dir == 1 ? vp_os_pos + (int64_t)off : (int64_t)vp_file_len + (int64_t)off;
  if (np < 0 || (uint64_t)np > vp_file_len) { vp_os.state |= FAILBIT; return s; }
  vp_os_pos = np; return s;
}
vp_fpos X__ZNSo5tellpEv(uint8_t* s) { vp_fpos r; r.f1 = 0; r.f0 = (vp_os.state & (FAILBIT | BADBIT)) ? (uint64_t)-1 : (uint64_t)vp_os_pos; return r; }
