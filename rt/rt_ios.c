/* std::istream model over the in-memory file of rt_file.c (used through GIL's istream_device).
 * The object is a fake std::istream: { vptr, _M_gcount } followed by the std::ios_base part, reached - exactly as the inline
 * fail()/operator! of libstdc++ does - through the virtual-base offset stored at vptr[-3]; the stream state word sits at
 * ios_base + 32 (layout of the installed libstdc++, verified by a native probe: tools/probe_ios.cpp).
 * State transitions follow libstdc++: every unformatted input function constructs a sentry (if !good(): setstate(failbit));
 * get() at end of file sets eofbit|failbit, peek() at end of file sets eofbit, readsome() reads what is available,
 * seekg() clears eofbit first and fails (failbit) outside [0, size]. */
#include "vp_rt.h"
extern uint8_t vp_file[]; extern uint64_t vp_file_len;
#define IOS_STATE_OFF 32
#define VBASE_OFF 16
/* typed so that the model checker keeps the v-pointer a pointer (a pointer stored into a byte array is not constant-propagated) */
static struct { int64_t* vptr; int64_t gcount; uint8_t ios_a[IOS_STATE_OFF]; uint32_t state; uint8_t ios_b[28]; } vp_is __attribute__((aligned(16)));
#define vp_is_obj ((uint8_t*)&vp_is)
static int64_t vp_is_vtbl[4];
static int64_t vp_is_pos;
#define ST(s) (vp_is.state)   /* the inline fail() of libstdc++ reaches the same word through vptr[-3] */
#define GC(s) (vp_is.gcount)
enum { BADBIT = 1, EOFBIT = 2, FAILBIT = 4 };
uint8_t* X_vp_istream(void) {
  vp_is_vtbl[0] = VBASE_OFF; vp_is_vtbl[1] = 0; vp_is_vtbl[2] = 0;
  vp_is.vptr = &vp_is_vtbl[3];
  ST(vp_is_obj) = 0; GC(vp_is_obj) = 0; vp_is_pos = 0;
  return vp_is_obj;
}
static int sentry(uint8_t* s) { if (ST(s) != 0) { ST(s) |= FAILBIT; return 0; } return 1; }
uint32_t X__ZNSi3getEv(uint8_t* s) {
  GC(s) = 0;
  if (!sentry(s)) return (uint32_t)-1;
  if ((uint64_t)vp_is_pos < vp_file_len) { GC(s) = 1; return vp_file[vp_is_pos++]; }
  ST(s) |= EOFBIT | FAILBIT; return (uint32_t)-1;
}
uint32_t X__ZNSi4peekEv(uint8_t* s) {
  GC(s) = 0;
  if (!sentry(s)) return (uint32_t)-1;
  if ((uint64_t)vp_is_pos < vp_file_len) return vp_file[vp_is_pos];
  ST(s) |= EOFBIT; return (uint32_t)-1;
}
uint64_t X__ZNSi8readsomeEPcl(uint8_t* s, uint8_t* buf, uint64_t n) {
  GC(s) = 0;
  if (!sentry(s)) return 0;
  uint64_t avail = vp_file_len - (uint64_t)vp_is_pos, k = (int64_t)n < 0 ? 0 : (n < avail ? n : avail);
  for (uint64_t i = 0; i < k; i++) buf[i] = vp_file[vp_is_pos + (int64_t)i];
  vp_is_pos += (int64_t)k; GC(s) = (int64_t)k;
  return k;
}
uint8_t* X__ZNSi4readEPcl(uint8_t* s, uint8_t* buf, uint64_t n) {
  GC(s) = 0;
  if (!sentry(s)) return s;
  uint64_t avail = vp_file_len - (uint64_t)vp_is_pos, k = n < avail ? n : avail;
  for (uint64_t i = 0; i < k; i++) buf[i] = vp_file[vp_is_pos + (int64_t)i];
  vp_is_pos += (int64_t)k; GC(s) = (int64_t)k;
  if (k < n) ST(s) |= EOFBIT | FAILBIT;
  return s;
}
uint8_t* X__ZNSi5seekgElSt12_Ios_Seekdir(uint8_t* s, uint64_t off, uint32_t dir) {
  ST(s) &= ~(uint32_t)EOFBIT;
  if (ST(s) & (FAILBIT | BADBIT)) return s;
  int64_t np = dir == 0 ? (int64_t)off : dir == 1 ? vp_is_pos + (int64_t)off : (int64_t)vp_file_len + (int64_t)off;
  if (np < 0 || (uint64_t)np > vp_file_len) { ST(s) |= FAILBIT; return s; }
  vp_is_pos = np; return s;
}
typedef struct { uint64_t f0; uint64_t f1; } vp_fpos;
vp_fpos X__ZNSi5tellgEv(uint8_t* s) {
  vp_fpos r; r.f1 = 0;
  r.f0 = (ST(s) & (FAILBIT | BADBIT)) ? (uint64_t)-1 : (uint64_t)vp_is_pos;
  return r;
}
