/* Core runtime model: nondeterministic inputs (logged for replay), C++ exception ABI, checking allocator ledger,
 * operator new/delete, libc string helpers. Every function here is part of each claim's environment. */
#include "vp_rt.h"

/* ------------------------------------------------------------------ nondeterministic inputs
 * every harness-visible nondet value is copied to vp_nd_log so that the counterexample trace lists them in call order */
uint64_t vp_nd_log;
#ifdef __CPROVER__
uint8_t  X_vp_nondet_u8(void)  { uint8_t v = nondet_uint8_t();  vp_nd_log = v; return v; }
uint16_t X_vp_nondet_u16(void) { uint16_t v = nondet_uint16_t(); vp_nd_log = v; return v; }
uint32_t X_vp_nondet_u32(void) { uint32_t v = nondet_uint32_t(); vp_nd_log = v; return v; }
uint32_t X_vp_nondet_int(void) { uint32_t v = nondet_uint32_t(); vp_nd_log = v; return v; }
uint64_t X_vp_nondet_u64(void) { uint64_t v = nondet_uint64_t(); vp_nd_log = v; return v; }
float    X_vp_nondet_float(void)  { uint32_t b = nondet_uint32_t(); vp_nd_log = b; return BITCAST(uint32_t, float, b); }
double   X_vp_nondet_double(void) { uint64_t b = nondet_uint64_t(); vp_nd_log = b; return BITCAST(uint64_t, double, b); }
#else
uint64_t vp_next_input(void);
uint8_t  X_vp_nondet_u8(void)  { return (uint8_t)vp_next_input(); }
uint16_t X_vp_nondet_u16(void) { return (uint16_t)vp_next_input(); }
uint32_t X_vp_nondet_u32(void) { return (uint32_t)vp_next_input(); }
uint32_t X_vp_nondet_int(void) { return (uint32_t)vp_next_input(); }
uint64_t X_vp_nondet_u64(void) { return vp_next_input(); }
float    X_vp_nondet_float(void)  { uint32_t b = (uint32_t)vp_next_input(); return BITCAST(uint32_t, float, b); }
double   X_vp_nondet_double(void) { uint64_t b = vp_next_input(); return BITCAST(uint64_t, double, b); }
uint8_t nondet_uint8_t(void) { return 0; } uint16_t nondet_uint16_t(void) { return 0; } uint32_t nondet_uint32_t(void) { return 0; }
uint64_t nondet_uint64_t(void) { return 0; } float nondet_float(void) { return 0; } double nondet_double(void) { return 0; }
unsigned __int128 nondet_unsigned___int128(void) { return 0; }
#endif

/* fill n bytes with logged symbolic data (a runtime-model loop: its bound is rt_unwind, independent of the harness' --unwind) */
void X_vp_fill_n(uint8_t* p, uint64_t n) { for (uint64_t i = 0; i < n; i++) p[i] = X_vp_nondet_u8(); }

/* concrete shape parameters of the query (cbmc -DVP_PARAMS=a,b,c; natively from the replay file) */
#ifdef __CPROVER__
#ifndef VP_PARAMS
#define VP_PARAMS 0
#endif
static const uint32_t vp_params[] = { VP_PARAMS, 0, 0, 0, 0, 0, 0, 0, 0 };
uint32_t X_vp_param(uint32_t k) { VP_CHECK(k < sizeof(vp_params) / sizeof(vp_params[0]), "env.param_index"); return vp_params[k]; }
#else
uint32_t vp_native_param(uint32_t k);
uint32_t X_vp_param(uint32_t k) { return vp_native_param(k); }
#endif

/* ------------------------------------------------------------------ C++ exceptions (Itanium ABI shape) */
int vp_exc_pending; uint8_t* vp_exc_obj; uint8_t* vp_exc_type;
static int vp_caught_depth; static int vp_rethrown;
uint8_t G__ZTISt9exception[16], G__ZTISt9bad_alloc[16], G__ZTISt8bad_cast[16], G__ZTISt12length_error[16], G__ZTISt11logic_error[16],
        G__ZTISt13runtime_error[16], G__ZTISt12out_of_range[16], G__ZTISt16invalid_argument[16], G__ZTISt20bad_array_new_length[16],
        G__ZTINSt8ios_base7failureB5cxx11E[16], G__ZTISt12system_error[16], G__ZTISt14overflow_error[16], G__ZTISt11range_error[16],
        G__ZTISt12domain_error[16], G__ZTISt10bad_typeid[16];
uint8_t G__ZTVSt9bad_alloc[64], G__ZTVSt8bad_cast[64], G__ZTVSt9exception[64], G__ZTVSt12length_error[64], G__ZTVSt11logic_error[64],
        G__ZTVSt13runtime_error[64], G__ZTVSt12out_of_range[64], G__ZTVSt16invalid_argument[64],
        G__ZTVN10__cxxabiv117__class_type_infoE[64], G__ZTVN10__cxxabiv120__si_class_type_infoE[64], G__ZTVN10__cxxabiv121__vmi_class_type_infoE[64];
uint8_t G___dso_handle[8];
uint8_t G___libc_single_threaded[1] = {1};
static int is_logic(uint8_t* t) { return t == G__ZTISt11logic_error || t == G__ZTISt12length_error || t == G__ZTISt12out_of_range || t == G__ZTISt16invalid_argument || t == G__ZTISt12domain_error; }
static int is_system(uint8_t* t) { return t == G__ZTISt12system_error || t == G__ZTINSt8ios_base7failureB5cxx11E; }
static int is_runtime(uint8_t* t) { return t == G__ZTISt13runtime_error || is_system(t) || t == G__ZTISt14overflow_error || t == G__ZTISt11range_error; }
static int is_badalloc(uint8_t* t) { return t == G__ZTISt9bad_alloc || t == G__ZTISt20bad_array_new_length; }
static int is_std_exception(uint8_t* t) { return t == G__ZTISt9exception || is_logic(t) || is_runtime(t) || is_badalloc(t) || t == G__ZTISt8bad_cast || t == G__ZTISt10bad_typeid; }
/* does a handler for type `ti` catch the pending exception? (exact type, or one of the std base classes above) */
int vp_exc_matches(uint8_t* ti) {
  uint8_t* t = vp_exc_type;
  if (ti == t) return 1;
  if (ti == G__ZTISt9exception) return is_std_exception(t);
  if (ti == G__ZTISt11logic_error) return is_logic(t);
  if (ti == G__ZTISt13runtime_error) return is_runtime(t);
  if (ti == G__ZTISt12system_error) return is_system(t);
  if (ti == G__ZTISt9bad_alloc) return is_badalloc(t);
  return 0;
}
uint8_t* X___cxa_allocate_exception(uint64_t n) { uint8_t* p = malloc(n ? n : 1); VP_ASSUME(p != 0); return p; }
void X___cxa_free_exception(uint8_t* p) { free(p); }
void X___cxa_throw(uint8_t* obj, uint8_t* ti, uint8_t* dtor) { vp_exc_obj = obj; vp_exc_type = ti; vp_exc_pending = 1; }
uint8_t* X___cxa_begin_catch(uint8_t* obj) { vp_exc_pending = 0; vp_caught_depth++; return obj; }
void X___cxa_end_catch(void) { vp_caught_depth--; vp_rethrown = 0; }
void X___cxa_rethrow(void) { vp_exc_pending = 1; vp_rethrown = 1; }
uint8_t* X___cxa_get_exception_ptr(uint8_t* obj) { return obj; }
void X__ZSt9terminatev(void) { VP_CHECK(0, "ub.terminate_called"); VP_ASSUME(0); }
void X___cxa_pure_virtual(void) { VP_CHECK(0, "ub.pure_virtual_called"); VP_ASSUME(0); }
void X___clang_call_terminate(uint8_t* p) { VP_CHECK(0, "ub.terminate_called"); VP_ASSUME(0); }
void X_abort(void) { VP_CHECK(0, "ub.abort_called"); VP_ASSUME(0); }
void X___assert_fail(uint8_t* a, uint8_t* b, uint32_t c, uint8_t* d) { VP_CHECK(0, "ub.assert_fail_called"); VP_ASSUME(0); }
/* function-local statics */
uint32_t X___cxa_guard_acquire(uint8_t* g) { return *g == 0; }
void X___cxa_guard_release(uint8_t* g) { *g = 1; }
void X___cxa_guard_abort(uint8_t* g) { }
uint32_t X___cxa_atexit(uint8_t* f, uint8_t* a, uint8_t* d) { return 0; }
/* destructors / ctors of std exception classes: no observable state in the model */
void X__ZNSt9bad_allocD1Ev(uint8_t* p) {}
void X__ZNSt9bad_allocD2Ev(uint8_t* p) {}
void X__ZNSt8bad_castD1Ev(uint8_t* p) {}
void X__ZNSt8bad_castD2Ev(uint8_t* p) {}
void X__ZNSt9exceptionD1Ev(uint8_t* p) {}
void X__ZNSt9exceptionD2Ev(uint8_t* p) {}
void X__ZNSt12length_errorD1Ev(uint8_t* p) {}
void X__ZNSt12length_errorC1EPKc(uint8_t* p, uint8_t* m) {}
void X__ZNSt11logic_errorC1EPKc(uint8_t* p, uint8_t* m) {}
void X__ZNSt11logic_errorD1Ev(uint8_t* p) {}
void X__ZNSt13runtime_errorC1EPKc(uint8_t* p, uint8_t* m) {}
void X__ZNSt13runtime_errorD1Ev(uint8_t* p) {}
void X__ZNSt12out_of_rangeC1EPKc(uint8_t* p, uint8_t* m) {}
void X__ZNSt12out_of_rangeD1Ev(uint8_t* p) {}
void X__ZNSt16invalid_argumentC1EPKc(uint8_t* p, uint8_t* m) {}
void X__ZNSt16invalid_argumentD1Ev(uint8_t* p) {}
/* std::ios_base::failure (GIL's io_error): object construction has no observable state in the model */
void X__ZNSt8ios_base7failureB5cxx11C1EPKcRKSt10error_code(uint8_t* self, uint8_t* msg, uint8_t* ec) {}
void X__ZNSt8ios_base7failureB5cxx11C1ERKNSt7__cxx1112basic_stringIcSt11char_traitsIcESaIcEEERKSt10error_code(uint8_t* self, uint8_t* msg, uint8_t* ec) {}
void X__ZNSt8ios_base7failureB5cxx11C2EPKcRKSt10error_code(uint8_t* self, uint8_t* msg, uint8_t* ec) {}
void X__ZNSt8ios_base7failureB5cxx11D1Ev(uint8_t* self) {}
void X__ZNSt8ios_base7failureB5cxx11D2Ev(uint8_t* self) {}
uint8_t G__ZTVNSt8ios_base7failureB5cxx11E[64];
static uint8_t vp_iocat[8];
uint8_t* X__ZSt17iostream_categoryv(void) { return vp_iocat; }
static void vp_throw(uint8_t* ti) { uint8_t* p = malloc(8); VP_ASSUME(p != 0); vp_exc_obj = p; vp_exc_type = ti; vp_exc_pending = 1; }
void X__ZSt17__throw_bad_allocv(void) { vp_throw(G__ZTISt9bad_alloc); }
void X__ZSt28__throw_bad_array_new_lengthv(void) { vp_throw(G__ZTISt20bad_array_new_length); }
void X__ZSt20__throw_length_errorPKc(uint8_t* m) { vp_throw(G__ZTISt12length_error); }
void X__ZSt19__throw_logic_errorPKc(uint8_t* m) { vp_throw(G__ZTISt11logic_error); }
void X__ZSt24__throw_invalid_argumentPKc(uint8_t* m) { vp_throw(G__ZTISt16invalid_argument); }
void X__ZSt20__throw_out_of_rangePKc(uint8_t* m) { vp_throw(G__ZTISt12out_of_range); }
void X__ZSt24__throw_out_of_range_fmtPKcz(uint8_t* m, ...) { vp_throw(G__ZTISt12out_of_range); }
void X__ZSt16__throw_bad_castv(void) { vp_throw(G__ZTISt8bad_cast); }
void X__ZSt21__throw_runtime_errorPKc(uint8_t* m) { vp_throw(G__ZTISt13runtime_error); }
void X__ZSt25__throw_bad_function_callv(void) { vp_throw(G__ZTISt9exception); }

/* ------------------------------------------------------------------ checking allocator ledger (harness allocator chk_alloc) */
#define VP_MAXB 8
static uint8_t* led_p[VP_MAXB]; static uint64_t led_n[VP_MAXB]; static uint64_t led_base[VP_MAXB];
static int led_id[VP_MAXB]; static int led_live[VP_MAXB]; static int led_cnt;
int vp_fail_at = -1; static int vp_alloc_calls;
#ifndef VP_ALLOC_LIMIT
#define VP_ALLOC_LIMIT 4096
#endif
void X_vp_set_fail_at(uint32_t k) { vp_fail_at = (int)k; }
uint32_t X_vp_alloc_calls(void) { return (uint32_t)vp_alloc_calls; }
uint8_t* X_vp_alloc(uint64_t n, uint32_t id) {
  VP_CHECK(n > 0 && n <= VP_ALLOC_LIMIT, "alloc.size_sane");
  if (vp_alloc_calls++ == vp_fail_at) return 0;
  VP_CHECK(led_cnt < VP_MAXB, "env.ledger_capacity");
  VP_ASSUME(led_cnt < VP_MAXB);
  uint8_t* p = malloc(n); VP_ASSUME(p != 0);
#ifdef __CPROVER__
  /* base address: an allocator<unsigned char> guarantees no alignment, so any residue is possible.
   * VP_RESIDUE=k: concrete residue (k*(i+1)) mod 64 for the i-th block (a shape parameter; symbolic offsets in every
   * later access make whole-image algorithms intractable); without it the residue is symbolic (light queries) */
#ifdef VP_RESIDUE
  uint64_t r = ((uint64_t)(VP_RESIDUE) * (uint64_t)(led_cnt + 1)) % 64;
#else
  uint64_t r = nondet_uint64_t(); VP_ASSUME(r < 64);
#endif
  led_base[led_cnt] = 0x100000ull * (uint64_t)(led_cnt + 1) + r;
#else
  led_base[led_cnt] = (uint64_t)(uintptr_t)p;
#endif
  led_p[led_cnt] = p; led_n[led_cnt] = n; led_id[led_cnt] = (int)id; led_live[led_cnt] = 1; led_cnt++;
  return p;
}
void X_vp_free(uint8_t* p, uint64_t n, uint32_t id) {
  int found = 0;
  for (int i = 0; i < VP_MAXB; i++) if (i < led_cnt && led_p[i] == p && led_live[i]) {
    found = 1;
    VP_CHECK(led_n[i] == n, "alloc.dealloc_size_matches");
    VP_CHECK(led_id[i] == (int)id, "alloc.dealloc_same_allocator");
    led_live[i] = 0; }
  VP_CHECK(found, "alloc.dealloc_of_live_block");
  if (found) free(p);
}
uint32_t X_vp_live_blocks(void) { int c = 0; for (int i = 0; i < VP_MAXB; i++) if (i < led_cnt && led_live[i]) c++; return (uint32_t)c; }
uint32_t X_vp_live_blocks_of(uint32_t id) { int c = 0; for (int i = 0; i < VP_MAXB; i++) if (i < led_cnt && led_live[i] && led_id[i] == (int)id) c++; return (uint32_t)c; }
/* is [p, p+n) inside one live block of allocator id?  returns block size or 0 */
uint64_t X_vp_block_size_of(uint8_t* p) {
  for (int i = 0; i < VP_MAXB; i++) if (i < led_cnt && led_live[i] && led_p[i] == p) return led_n[i];
  return 0;
}
uint32_t X_vp_in_live_block(uint8_t* p, uint64_t n, uint32_t id) {
#ifdef __CPROVER__
  for (int i = 0; i < VP_MAXB; i++) if (i < led_cnt && led_live[i] && led_id[i] == (int)id && __CPROVER_same_object(p, led_p[i])) {
    uint64_t off = (uint64_t)__CPROVER_POINTER_OFFSET(p); return off + n <= led_n[i]; }
#else
  for (int i = 0; i < VP_MAXB; i++) if (i < led_cnt && led_live[i] && led_id[i] == (int)id && p >= led_p[i] && p + n <= led_p[i] + led_n[i]) return 1;
#endif
  return 0;
}
void X_vp_check_no_leak(void) { VP_CHECK(X_vp_live_blocks() == 0, "alloc.no_leak"); }
/* Address model.  Blocks handed out by the harness allocator / vp_buf have a modelled base address (symbolic residue for
 * the allocator); every other object gets (object id << 40) + 2^36 + signed offset, so that pointers before the start of
 * an object (row_end of a flipped view) still compare and subtract correctly. */
#ifdef __CPROVER__
uint8_t* vp_func_from_id(uint64_t x); uint64_t vp_func_to_id(uint8_t* p);   /* generated per translated file (tools/ll2c.py) */
#else
__attribute__((weak)) uint8_t* vp_func_from_id(uint64_t x); __attribute__((weak)) uint64_t vp_func_to_id(uint8_t* p);   /* absent in the native C++ build */
#endif
uint64_t vp_ptrtoint(uint8_t* p) {
#ifdef __CPROVER__
  if (p == 0) return 0;
  { uint64_t id = vp_func_to_id(p); if (id) return id; }
  for (int i = 0; i < VP_MAXB; i++) if (i < led_cnt && __CPROVER_same_object(p, led_p[i]))
    return led_base[i] + (uint64_t)(int64_t)__CPROVER_POINTER_OFFSET(p);
  return ((uint64_t)__CPROVER_POINTER_OBJECT(p) << 40) + (1ull << 36) + (uint64_t)(int64_t)__CPROVER_POINTER_OFFSET(p);
#else
  { uint64_t id = (p && vp_func_to_id) ? vp_func_to_id(p) : 0; if (id) return id; }   /* generated C uses the fixed function ids in both builds */
  return (uint64_t)p;
#endif
}
uint8_t* vp_inttoptr(uint64_t x) {
#ifdef __CPROVER__
  if (x == 0) return 0;
  { uint8_t* f = vp_func_from_id(x); if (f) return f; }
  for (int i = 0; i < VP_MAXB; i++) if (i < led_cnt && x + 4096 >= led_base[i] && x - led_base[i] + 4096 <= led_n[i] + 8192)
    return led_p[i] + (int64_t)(x - led_base[i]);
  VP_CHECK(0, "env.inttoptr_unknown_object");
#else
  { uint8_t* f = (x && vp_func_from_id) ? vp_func_from_id(x) : 0; if (f) return f; }
#endif
  return (uint8_t*)x;
}
/* modelled address of a pointer (used by harnesses to check row alignment on the modelled address) */
uint64_t X_vp_addr(uint8_t* p) { return vp_ptrtoint(p); }
uint8_t* vp_alloca(uint64_t n) { uint8_t* p = malloc(n ? n : 1); VP_ASSUME(p != 0); return p; }

/* exact-size heap buffers for views over caller-supplied storage */
uint8_t* X_vp_buf(uint64_t n) { uint8_t* p = malloc(n ? n : 1); VP_ASSUME(p != 0);
  /* registered in the address map only (live flag 0: not an allocator block) */
  VP_CHECK(led_cnt < VP_MAXB, "env.ledger_capacity"); VP_ASSUME(led_cnt < VP_MAXB);
  led_base[led_cnt] = 0x100000ull * (uint64_t)(led_cnt + 1) + 64; led_p[led_cnt] = p; led_n[led_cnt] = n; led_id[led_cnt] = -1; led_live[led_cnt] = 0; led_cnt++;
  return p; }
void X_vp_buf_free(uint8_t* p) { free(p); }

/* ------------------------------------------------------------------ operator new / delete */
#ifndef VP_NEW_LIMIT
#define VP_NEW_LIMIT 4096
#endif
static int vp_new_live_cnt;
uint8_t* X__Znwm(uint64_t n) {
  if (n > VP_NEW_LIMIT) { vp_throw(G__ZTISt9bad_alloc); return 0; }
  uint8_t* p = malloc(n ? n : 1); VP_ASSUME(p != 0); vp_new_live_cnt++; return p; }
uint8_t* X__Znam(uint64_t n) { return X__Znwm(n); }
void X__ZdlPv(uint8_t* p) { if (p) { vp_new_live_cnt--; free(p); } }
void X__ZdlPvm(uint8_t* p, uint64_t n) { X__ZdlPv(p); }
void X__ZdaPv(uint8_t* p) { X__ZdlPv(p); }
uint32_t X_vp_new_live(void) { return (uint32_t)vp_new_live_cnt; }

/* ------------------------------------------------------------------ libc helpers */
uint32_t X_bcmp(uint8_t* a, uint8_t* b, uint64_t n) { for (uint64_t i = 0; i < n; i++) if (a[i] != b[i]) return 1; return 0; }
uint32_t X_memcmp(uint8_t* a, uint8_t* b, uint64_t n) { for (uint64_t i = 0; i < n; i++) if (a[i] != b[i]) return a[i] < b[i] ? (uint32_t)-1 : 1u; return 0; }
uint32_t X_strcmp(uint8_t* a, uint8_t* b) { for (uint64_t i = 0; i < VP_RT_LOOP_MAX; i++) { if (a[i] != b[i]) return a[i] < b[i] ? (uint32_t)-1 : 1u; if (!a[i]) return 0; } return 0; }
uint64_t X_strlen(uint8_t* a) { uint64_t i = 0; while (a[i]) i++; return i; }
uint8_t* X_memchr(uint8_t* a, uint32_t c, uint64_t n) { for (uint64_t i = 0; i < n; i++) if (a[i] == (uint8_t)c) return a + i; return 0; }
uint32_t X_isdigit(uint32_t c) { return c >= '0' && c <= '9'; }
uint32_t X_isspace(uint32_t c) { return c == ' ' || (c >= 9 && c <= 13); }
/* strtol / atoi, base 10 (what glibc's inline atoi calls): optional spaces and sign, digits, saturating */
uint64_t X_strtol(uint8_t* s, uint8_t* endp, uint32_t base) {
  uint64_t i = 0; int neg = 0; int64_t v = 0;
  while (s[i] == ' ' || (s[i] >= 9 && s[i] <= 13)) i++;
  if (s[i] == '-') { neg = 1; i++; } else if (s[i] == '+') i++;
  while (s[i] >= '0' && s[i] <= '9') { int64_t dgt = s[i] - '0'; if (v > (INT64_MAX - dgt) / 10) v = INT64_MAX; else v = v * 10 + dgt; i++; }
  if (endp) *(uint8_t**)endp = s + i;
  return (uint64_t)(neg ? -v : v);
}
uint32_t X_atoi(uint8_t* s) { return (uint32_t)X_strtol(s, 0, 10); }
void vp_rt_init(void) { }

