BOUNDS = ('per query the carrier / partition / channel index / operation / pixel count are concrete and all data is symbolic: every content of the buffer '
          '(carrier, neighbouring pixels AND 8 guard bytes on each side), every written value 0..2^bits-1, every addend 0..65535 for += / -=, every start bit 0..7 '
          'of the written bit-aligned reference / iterator and of dynamic channel references, every n in [-16,16] x start byte 0..3 x start bit 0..7 for the iterator laws. '
          'The start bit of a second (source / swap partner) bit-aligned reference is concrete per query (quick: one value per type, thorough: all 8). '
          'Enumerated: single channel references packed_channel_reference<BF,first,bits> / packed_dynamic_channel_reference<BF,bits> for bits 1..8 (+10,12,16) at selected (quick) / all (thorough: 8- and 16-bit '
          'carriers; first bits {0,1,7,8,15,16,24,31,32,33,47,56,last} for 32/64-bit carriers) first bits; packed_pixel partitions 565, 332, 1x8, 10-10-10-2, 5-5-5(+1 unused), 5-6-5 in a 64-bit carrier '
          '(thorough: 556, 4-4, 2-2-2-2, 5-5-5-1, 2-2-2, 8-8-8-8, 16x4, ...); bit-aligned pixel sizes 1,2,3,4,6,7,12 (thorough also 5,8,10,16,32 and wider BitFields) with std::fill / std::copy of 3 '
          '(thorough 1..4) pixels')
OUTSIDE = ('channel widths > 16 bits except 10-10-10-2 (observed outside the bound: packed_dynamic_channel_reference shifts integer_t, so a 26..32-bit channel at first bit > 0 loses its top bits); '
           'first bits of 32/64-bit carriers outside the enumerated set; assignment of an out-of-range integer (> 2^bits-1) through operator=(integer_t), '
           'which the library documents as a precondition (BOOST_ASSERT); unused carrier bits under same-type copy assignment / std::swap of packed_pixel VALUES (the implicit copy assignment copies the '
           'whole carrier of the value: frame = the pixel\'s own carrier); *= and /= on channel proxies; overlapping source/destination ranges in std::copy; big-endian carriers')
ASSUMPTIONS = ['values assigned through operator=(integer_t) are <= the channel maximum (documented precondition)',
               'bit numbering of a carrier is little-endian (bit g of the buffer = bit g%8 of byte g/8), as on the x86-64 target of the build',
               'BitField of a bit-aligned reference has at least pixel bits + 7 bits (the rule bit_aligned_image_type itself applies)']
U = {8: 'std::uint8_t', 16: 'std::uint16_t', 32: 'std::uint32_t', 64: 'std::uint64_t'}
SRC = 'C08/bits.cpp'

def chan_queries(tier):
    qs = []
    # (carrier bits, first bit, width)
    quick_static = [(8, 0, 1), (8, 3, 5), (8, 0, 8), (16, 5, 6), (16, 4, 12), (32, 10, 10), (64, 20, 7), (64, 48, 16)]
    quick_cross = [(16, 5, 6), (32, 10, 10), (64, 20, 7)]
    quick_dyn = [(8, 1), (16, 5), (16, 8), (32, 16), (64, 3)]
    static = list(quick_static); dyn = list(quick_dyn)
    if tier == 'thorough':
        static += [(8, 7, 1), (16, 11, 5), (16, 0, 16), (32, 30, 2), (64, 57, 7)]
        for B in (8, 16, 32, 64):
            for n in list(range(1, 9)) + [10, 12, 16]:
                if n > B: continue
                firsts = range(0, B - n + 1) if B <= 16 else sorted(set(f for f in [0, 1, 7, 8, 15, 16, 24, 31, 32, 33, 47, 56, B - n] if 0 <= f <= B - n))
                for f in firsts:
                    if (B, f, n) not in static: static.append((B, f, n))
                if n + 7 <= B and (B, n) not in dyn: dyn.append((B, n))
    for (B, f, n) in static:
        t = 'quick' if (B, f, n) in quick_static else 'thorough'
        cross = 1 if n + 7 <= B else 0
        d = dict(PART=1, BF_T=U[B], FIRSTBIT=f, NBITS=n, DYNAMIC=0, CROSS=cross)
        nm = 'chan/u%d_f%d_n%d' % (B, f, n)
        for e in ('h_set', 'h_arith', 'h_assign_ref', 'h_swap'):
            qs.append(Q('%s/%s' % (nm, e[2:]), SRC, e, defs=d, unwind=40, tier=t, timeout=120))
        if cross and ((B, f, n) in quick_cross or f in (0, B - n)):
            for k, w in ((0, 'static_from_dynamic'), (1, 'dynamic_from_static')):
                qs.append(Q('%s/%s' % (nm, w), SRC, 'h_cross', defs=d, params=[k], unwind=120, tier=t if (B, f, n) in quick_cross else 'thorough', timeout=120))
    for (B, n) in dyn:
        t = 'quick' if (B, n) in quick_dyn else 'thorough'
        d = dict(PART=1, BF_T=U[B], FIRSTBIT=0, NBITS=n, DYNAMIC=1, CROSS=0)
        nm = 'dchan/u%d_n%d' % (B, n)
        for e in ('h_set', 'h_arith', 'h_assign_ref', 'h_swap'):
            qs.append(Q('%s/%s' % (nm, e[2:]), SRC, e, defs=d, unwind=120, tier=t, timeout=120))
    return qs

# packed_pixel partitions: (carrier bits, sizes, quick?)
PACKED = [(16, (5, 6, 5), 1), (8, (3, 3, 2), 1), (8, (1,) * 8, 1), (32, (10, 10, 10, 2), 1), (16, (5, 5, 5), 1), (64, (5, 6, 5), 1),
          (16, (5, 5, 5, 1), 0), (8, (2, 2, 2), 0), (16, (5, 5, 6), 0), (8, (4, 4), 0), (8, (2, 2, 2, 2), 0), (32, (5, 6, 5), 0), (32, (8, 8, 8, 8), 0), (64, (16, 16, 16, 16), 0), (16, (1,) * 8, 0),
          (64, (10, 10, 10, 2), 0), (8, (8,), 0), (8, (1,), 0), (16, (16,), 0)]
def szname(s): return ''.join(str(x) for x in s) if max(s) < 10 and len(s) < 8 else ('%dx%d' % (s[0], len(s)) if len(set(s)) == 1 else '_'.join(str(x) for x in s))
def packed_queries(tier):
    qs = []
    for (B, sz, qk) in PACKED:
        t = 'quick' if qk else 'thorough'
        other = 0 if (B == 64 and sum(sz) > 32) else 1
        d = dict(PART=2, BF_T=U[B], SIZES=','.join(str(x) for x in sz), OTHER=other)
        nm = 'ppx/u%d_%s' % (B, szname(sz))
        n = len(sz); uw = 16 + 3 * B // 8 + 8
        for k in range(n):
            tk = t if (n <= 4 or k in (0, 3, 7)) else 'thorough'
            qs.append(Q('%s/set_c%d' % (nm, k), SRC, 'h_px_set', defs=d, params=[k], unwind=uw, tier=tk, timeout=120))
            qs.append(Q('%s/arith_c%d' % (nm, k), SRC, 'h_px_arith', defs=d, params=[k], unwind=uw, tier=t if k in (0, n - 1) else 'thorough', timeout=120))
            qs.append(Q('%s/swap_c%d' % (nm, k), SRC, 'h_px_swap', defs=d, params=[k], unwind=uw, tier=t if k == n // 2 else 'thorough', timeout=120))
        qs.append(Q('%s/swap_pixels' % nm, SRC, 'h_px_swap', defs=d, params=[99], unwind=uw, tier=t, timeout=120))
        for e in (('h_px_assign_other', 'h_px_construct_other') if other else ()) + ('h_px_assign_same',):
            qs.append(Q('%s/%s' % (nm, e[5:]), SRC, e, defs=d, unwind=uw, tier=t, timeout=120))
    return qs

# bit-aligned references: (BitField bits, sizes, layout or None, quick level: 2 = full quick set, 1 = reduced quick set, 0 = thorough only)
BITAL = [(8, (1,), 'gil::gray_layout_t', 2), (16, (2,), 'gil::gray_layout_t', 1), (16, (1, 1, 1), 'gil::rgb_layout_t', 1), (16, (1, 2, 1), 'gil::bgr_layout_t', 1), (16, (2, 2, 2), 'gil::rgb_layout_t', 1),
         (16, (2, 3, 2), 'gil::bgr_layout_t', 2), (32, (4, 4, 4), 'gil::rgb_layout_t', 1),
         (32, (5, 6, 5), 'gil::rgb_layout_t', 0), (64, (2, 2, 2), 'gil::rgb_layout_t', 0),
         (16, (4,), 'gil::gray_layout_t', 0), (16, (1, 1), None, 0), (16, (3, 3, 2), 'gil::rgb_layout_t', 0), (32, (2, 3, 2), 'gil::bgr_layout_t', 0), (32, (2, 2, 2, 2), 'gil::rgba_layout_t', 0),
         (32, (1,), 'gil::gray_layout_t', 0), (64, (10, 10, 10, 2), 'gil::rgba_layout_t', 0), (32, (10,), 'gil::gray_layout_t', 0), (32, (16,), 'gil::gray_layout_t', 0), (64, (5, 6, 5), 'gil::rgb_layout_t', 0),
         (16, (1, 1, 1, 1, 1), None, 0), (16, (7,), 'gil::gray_layout_t', 0), (16, (3,), 'gil::gray_layout_t', 0), (16, (6,), 'gil::gray_layout_t', 0), (32, (12,), 'gil::gray_layout_t', 0)]
OPS = ['preinc', 'predec', 'postinc', 'postdec', 'add_assign', 'sub_assign']
def bital_queries(tier):
    qs = []
    for idx, (B, sz, lay, qk) in enumerate(BITAL):
        bits = sum(sz); n = len(sz)
        npix = 4 if tier == 'thorough' else 3
        d = dict(PART=3, BF_T=U[B], SIZES=','.join(str(x) for x in sz), NPIX=npix)
        if lay: d['LAYOUT'] = lay
        nm = 'bref/u%d_%s' % (B, szname(sz))
        buf = 16 + 2 * ((bits + 7) // 8) + (14 + npix * bits) // 8
        uw = buf + 8 * npix * max(n, 3) + 40      # loop counters of inlined loops accumulate over the 8-way case split (fail-closed if too small)
        qsb = (3 * idx + 5) % 8                    # the one concrete source start bit used by the quick tier for this type (thorough: all 8)
        def add(name, entry, params, lvl):         # lvl: minimal quick level at which this query is in the quick tier
            qs.append(Q('%s/%s' % (nm, name), SRC, entry, defs=d, params=params, unwind=uw, tier='quick' if (qk >= lvl and lvl > 0) else 'thorough', timeout=120))
        for k in range(n):
            add('set_c%d' % k, 'h_ref_set', [k], 1)
            for op, w in enumerate(OPS):
                add('%s_c%d' % (w, k), 'h_ref_arith', [k, op], (1 if op == (k % 6) else 2) if k == n - 1 else 0)
            for sb in (range(8) if k == n // 2 else [qsb]):
                add('swap_c%d_s%d' % (k, sb), 'h_ref_swap', [10 + k, sb], 2 if (k == n // 2 and sb == qsb) else 0)
        add('assign_value', 'h_ref_assign', [0, 0], 1)
        add('value_from_ref', 'h_ref_assign', [3, 0], 2)
        add('value_constructed', 'h_ref_assign', [4, 0], 2)
        add('swap_with_value', 'h_ref_swap', [1, 0], 2)
        for sb in range(8):
            add('assign_ref_s%d' % sb, 'h_ref_assign', [1, sb], 1 if sb == qsb else 0)
            add('assign_cref_s%d' % sb, 'h_ref_assign', [2, sb], 2 if sb == (qsb + 3) % 8 else 0)
            add('swap_refs_s%d' % sb, 'h_ref_swap', [0, sb], 1 if sb == (qsb + 1) % 8 else 0)
        for cnt in range(1, npix + 1):
            add('fill_n%d' % cnt, 'h_it_fill', [cnt], 1 if cnt == 3 else 0)
            for sb in (range(8) if cnt == 3 else [(qsb + 2) % 8]):
                add('copy_n%d_s%d' % (cnt, sb), 'h_it_copy', [cnt, sb], 1 if (cnt == 3 and sb == (qsb + 2) % 8) else 0)
        qs.append(Q('%s/iterator_laws' % nm, SRC, 'h_it_laws', defs=d, unwind=8, tier='quick' if qk else 'thorough', timeout=120))
    return qs

def queries(tier, seed):
    return chan_queries(tier) + packed_queries(tier) + bital_queries(tier)
