BOUNDS = ('per query the carrier / partition / channel index / pixel count are concrete and all data is symbolic: every content of the buffer '
          '(carrier, neighbouring pixels AND 8 guard bytes on each side), every written value 0..2^bits-1, every addend 0..65535 for += / -=, every start bit 0..7 '
          'of bit-aligned references and dynamic channel references, every n in [-16,16] and start byte 0..3 x start bit 0..7 for the iterator laws. '
          'Enumerated: single channel references packed_channel_reference<BF,first,bits> for bits 1..8 (+10,12,16) at selected (quick) / all (thorough: 8- and 16-bit carriers; boundary set for 32/64-bit) first bits '
          'over 8/16/32/64-bit carriers; packed_pixel partitions 565, 556, 332, 4-4, 2-2-2-2, 1x8, 10-10-10-2, 5-5-5-1, 5-5-5(+1 unused), 2-2-2(+2 unused), 5-6-5 in 32/64-bit carriers; '
          'bit-aligned pixel sizes 1,2,3,4,6,7,12,16 (thorough also 8, 10, 32 and wider BitFields) with fill/copy of 3 (thorough 1..4) pixels')
OUTSIDE = ('channel widths > 16 bits except 10-10-10-2; first bits of 32/64-bit carriers outside the enumerated set; assignment of an out-of-range integer (> 2^bits-1) through operator=(integer_t), '
           'which the library documents as a precondition (BOOST_ASSERT); unused carrier bits under same-type copy assignment / std::swap of packed_pixel VALUES (the implicit copy assignment copies the '
           'whole carrier of the value: frame = the pixel\'s own carrier); *= and /= on channel proxies; overlapping source/destination ranges in std::copy; big-endian carriers')
ASSUMPTIONS = ['values assigned through operator=(integer_t) are <= the channel maximum (documented precondition)',
               'bit numbering of a carrier is little-endian (bit g of the buffer = bit g%8 of byte g/8), as on the x86-64 target of the build',
               'BitField of a bit-aligned reference has at least pixel bits + 7 bits (the rule bit_aligned_image_type itself applies)']
U = {8: 'std::uint8_t', 16: 'std::uint16_t', 32: 'std::uint32_t', 64: 'std::uint64_t'}
SRC = 'C08/bits.cpp'

def chan_queries(tier):
    qs = []
    # (carrier bits, first bit, width)
    quick_static = [(8, 0, 1), (8, 7, 1), (8, 3, 5), (8, 0, 8), (16, 5, 6), (16, 11, 5), (16, 4, 12), (16, 0, 16), (32, 10, 10), (32, 30, 2), (64, 20, 7), (64, 57, 7), (64, 48, 16)]
    quick_dyn = [(8, 1), (16, 2), (16, 5), (16, 8), (32, 7), (32, 16), (64, 3), (64, 12)]
    static = list(quick_static); dyn = list(quick_dyn)
    if tier == 'thorough':
        for B in (8, 16, 32, 64):
            for n in list(range(1, 9)) + [10, 12, 16]:
                if n > B: continue
                firsts = range(0, B - n + 1) if B <= 16 else sorted(set(f for f in [0, 1, 7, 8, 9, 15, 16, 17, 23, 24, 31, 32, 33, 40, 47, 48, 55, 56, B - n - 1, B - n] if 0 <= f <= B - n))
                for f in firsts:
                    if (B, f, n) not in static: static.append((B, f, n))
                if n + 7 <= B and (B, n) not in dyn: dyn.append((B, n))
    for (B, f, n) in static:
        t = 'quick' if (B, f, n) in quick_static else 'thorough'
        cross = 1 if n + 7 <= B else 0
        d = dict(PART=1, BF_T=U[B], FIRSTBIT=f, NBITS=n, DYNAMIC=0, CROSS=cross)
        nm = 'chan/u%d_f%d_n%d' % (B, f, n)
        for e in ('h_set', 'h_arith', 'h_assign_ref', 'h_swap'):
            qs.append(Q('%s/%s' % (nm, e[2:]), SRC, e, defs=d, unwind=28, tier=t, timeout=120))
        if cross:
            for k, w in ((0, 'static_from_dynamic'), (1, 'dynamic_from_static')):
                qs.append(Q('%s/%s' % (nm, w), SRC, 'h_cross', defs=d, params=[k], unwind=28, tier=t, timeout=120))
    for (B, n) in dyn:
        t = 'quick' if (B, n) in quick_dyn else 'thorough'
        d = dict(PART=1, BF_T=U[B], FIRSTBIT=0, NBITS=n, DYNAMIC=1, CROSS=0)
        nm = 'dchan/u%d_n%d' % (B, n)
        for e in ('h_set', 'h_arith', 'h_assign_ref', 'h_swap'):
            qs.append(Q('%s/%s' % (nm, e[2:]), SRC, e, defs=d, unwind=28, tier=t, timeout=120))
    return qs

# packed_pixel partitions: (carrier bits, sizes, quick?)
PACKED = [(16, (5, 6, 5), 1), (8, (3, 3, 2), 1), (8, (1,) * 8, 1), (32, (10, 10, 10, 2), 1), (16, (5, 5, 5, 1), 1), (16, (5, 5, 5), 1), (8, (2, 2, 2), 1), (64, (5, 6, 5), 1),
          (16, (5, 5, 6), 0), (8, (4, 4), 0), (8, (2, 2, 2, 2), 0), (32, (5, 6, 5), 0), (32, (8, 8, 8, 8), 0), (64, (16, 16, 16, 16), 0), (16, (1,) * 8, 0), (64, (10, 10, 10, 2), 0), (8, (8,), 0), (8, (1,), 0), (16, (16,), 0)]
def szname(s): return ''.join(str(x) for x in s) if max(s) < 10 and len(s) < 8 else ('%dx%d' % (s[0], len(s)) if len(set(s)) == 1 else '_'.join(str(x) for x in s))
def packed_queries(tier):
    qs = []
    for (B, sz, qk) in PACKED:
        t = 'quick' if qk else 'thorough'
        d = dict(PART=2, BF_T=U[B], SIZES=','.join(str(x) for x in sz))
        nm = 'ppx/u%d_%s' % (B, szname(sz))
        n = len(sz); buf = 16 + 3 * B // 8
        ks = list(range(n))
        for k in ks:
            tk = t if (n <= 4 or k in (0, 3, 7)) else 'thorough'
            qs.append(Q('%s/set_c%d' % (nm, k), SRC, 'h_px_set', defs=d, params=[k], unwind=buf + 2, tier=tk, timeout=120))
            qs.append(Q('%s/arith_c%d' % (nm, k), SRC, 'h_px_arith', defs=d, params=[k], unwind=buf + 2, tier=tk if k in (0, n - 1) else 'thorough', timeout=120))
            qs.append(Q('%s/swap_c%d' % (nm, k), SRC, 'h_px_swap', defs=d, params=[k], unwind=buf + 2, tier=t if k == n // 2 else 'thorough', timeout=120))
        qs.append(Q('%s/swap_pixels' % nm, SRC, 'h_px_swap', defs=d, params=[99], unwind=buf + 2, tier=t, timeout=120))
        for e in ('h_px_assign_other', 'h_px_assign_same'):
            qs.append(Q('%s/%s' % (nm, e[5:]), SRC, e, defs=d, unwind=buf + 2, tier=t, timeout=120))
    return qs

# bit-aligned references: (BitField bits, sizes, layout or None, quick?)
BITAL = [(8, (1,), 'gil::gray_layout_t', 1), (16, (2,), 'gil::gray_layout_t', 1), (16, (1, 1, 1), 'gil::rgb_layout_t', 1), (16, (1, 2, 1), 'gil::bgr_layout_t', 1), (16, (2, 2, 2), 'gil::rgb_layout_t', 1),
         (16, (2, 3, 2), 'gil::bgr_layout_t', 1), (32, (4, 4, 4), 'gil::rgb_layout_t', 1), (32, (5, 6, 5), 'gil::rgb_layout_t', 1), (64, (2, 2, 2), 'gil::rgb_layout_t', 1),
         (16, (4,), 'gil::gray_layout_t', 0), (16, (1, 1), None, 0), (16, (3, 3, 2), 'gil::rgb_layout_t', 0), (32, (2, 3, 2), 'gil::bgr_layout_t', 0), (32, (2, 2, 2, 2), 'gil::rgba_layout_t', 0),
         (32, (1,), 'gil::gray_layout_t', 0), (64, (10, 10, 10, 2), 'gil::rgba_layout_t', 0), (32, (10,), 'gil::gray_layout_t', 0), (32, (16,), 'gil::gray_layout_t', 0), (64, (5, 6, 5), 'gil::rgb_layout_t', 0),
         (16, (1, 1, 1, 1, 1), None, 0), (16, (7,), 'gil::gray_layout_t', 0), (16, (3,), 'gil::gray_layout_t', 0), (16, (6,), 'gil::gray_layout_t', 0), (32, (12,), 'gil::gray_layout_t', 0)]
def bital_queries(tier):
    qs = []
    for (B, sz, lay, qk) in BITAL:
        t = 'quick' if qk else 'thorough'
        bits = sum(sz); n = len(sz)
        npix = 4 if tier == 'thorough' else 3
        d = dict(PART=3, BF_T=U[B], SIZES=','.join(str(x) for x in sz), NPIX=npix)
        if lay: d['LAYOUT'] = lay
        nm = 'bref/u%d_%s' % (B, szname(sz))
        pxbytes = (bits + 7) // 8
        buf = 16 + 2 * pxbytes + (14 + npix * bits) // 8
        uw = buf + 2
        for k in range(n):
            qs.append(Q('%s/set_c%d' % (nm, k), SRC, 'h_ref_set', defs=d, params=[k], unwind=uw, tier=t, timeout=120))
            qs.append(Q('%s/arith_c%d' % (nm, k), SRC, 'h_ref_arith', defs=d, params=[k], unwind=uw, tier=t if k == n - 1 else 'thorough', timeout=120))
            qs.append(Q('%s/swap_c%d' % (nm, k), SRC, 'h_ref_swap', defs=d, params=[10 + k], unwind=uw, tier=t if k == n // 2 else 'thorough', timeout=120))
        for op, w in enumerate(('assign_value', 'assign_ref', 'assign_cref', 'value_from_ref', 'value_constructed')):
            qs.append(Q('%s/%s' % (nm, w), SRC, 'h_ref_assign', defs=d, params=[op], unwind=uw, tier=t, timeout=120))
        for op, w in enumerate(('swap_refs', 'swap_ref_value', 'swap_value_ref')):
            qs.append(Q('%s/%s' % (nm, w), SRC, 'h_ref_swap', defs=d, params=[op], unwind=uw, tier=t if op != 2 else 'thorough', timeout=120))
        for cnt in (range(1, npix + 1) if tier == 'thorough' else [npix]):
            tt = t if cnt == 3 else 'thorough'
            qs.append(Q('%s/fill_n%d' % (nm, cnt), SRC, 'h_it_fill', defs=d, params=[cnt], unwind=uw, tier=tt, timeout=120))
            qs.append(Q('%s/copy_n%d' % (nm, cnt), SRC, 'h_it_copy', defs=d, params=[cnt], unwind=uw, tier=tt, timeout=120))
        qs.append(Q('%s/iterator_laws' % nm, SRC, 'h_it_laws', defs=d, unwind=8, tier=t, timeout=120))
    return qs

def queries(tier, seed):
    return chan_queries(tier) + packed_queries(tier) + bital_queries(tier)
