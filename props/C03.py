BOUNDS = 'w,h symbolic in 0..4, row padding symbolic, all start positions and offsets symbolic (1-D positions 0..w*h including end()), locator moved through three symbolic in-range positions'
OUTSIDE = 'sizes > 4; offsets that leave [begin,end]; user-defined locators'
ASSUMPTIONS = ['source views are built over exact-size heap buffers by the harness', 'navigation stays inside [begin(), end()] / inside the view for dereferences']
KINDS = [  # (src, xf, addressable)
    ('src_rgb8i', 'xf_id', 1), ('src_rgb8i', 'xf_flipud', 1), ('src_rgb8i', 'xf_fliplr', 1), ('src_rgb8i', 'xf_transposed', 1), ('src_rgb8i', 'xf_subsampled', 1),
    ('src_rgb8i', 'xf_subimage', 1), ('src_rgb8i', 'xf_rot90cw', 1), ('src_rgb8i', 'xf_rot180', 1),
    ('src_rgb8p', 'xf_id', 1), ('src_rgb8p', 'xf_transposed', 1), ('src_rgb8p', 'xf_rot180', 1),
    ('src_gray8step', 'xf_id', 1), ('src_gray8step', 'xf_flipud', 1),
    ('src_bgr232', 'xf_id', 1), ('src_bgr232', 'xf_fliplr', 1), ('src_bgr232', 'xf_rot90ccw', 1), ('src_gray1', 'xf_id', 1), ('src_gray1', 'xf_subimage', 1),
    ('src_rgb565', 'xf_id', 1), ('src_rgb16i', 'xf_rot90cw', 1),
    ('src_virtual', 'xf_id', 0), ('src_virtual', 'xf_transposed', 0), ('src_virtual', 'xf_fliplr', 0), ('src_virtual', 'xf_subsampled', 0), ('src_virtual', 'xf_rot180', 0), ('src_virtual', 'xf_rot90ccw', 0), ('src_deref', 'xf_id', 0),
]
QUICK = {('src_rgb8i', 'xf_id'), ('src_rgb8i', 'xf_flipud'), ('src_rgb8i', 'xf_fliplr'), ('src_rgb8i', 'xf_transposed'), ('src_rgb8i', 'xf_subimage'),
         ('src_rgb8p', 'xf_id'), ('src_rgb8p', 'xf_rot180'), ('src_gray8step', 'xf_id'), ('src_bgr232', 'xf_id'), ('src_bgr232', 'xf_fliplr'),
         ('src_gray1', 'xf_subimage'), ('src_virtual', 'xf_id'), ('src_virtual', 'xf_fliplr'), ('src_virtual', 'xf_subsampled'), ('src_virtual', 'xf_rot90ccw')}
def queries(tier, seed):
    qs = []
    for s, f, a in KINDS:
        t = 'quick' if (s, f) in QUICK else 'thorough'
        d = dict(SRC=s, XF1=f, ADDRESSABLE=a)
        for e in ('h_paths', 'h_locator', 'h_laws', 'h_axis', 'h_empty'):
            if s == 'src_deref' and e != 'h_laws': continue
            if e == 'h_laws':
                # iterator_from_2d divides by the view width: width/height are shape parameters here, positions stay symbolic
                shapes = [(3, 2), (1, 4), (4, 3)] if t == 'quick' else [(0, 0), (1, 1), (3, 2), (2, 3), (4, 4), (1, 4), (4, 1), (0, 3), (3, 0)]
                for (w, h) in [(0, 0), (1, 1), (3, 2), (2, 3), (4, 4), (1, 4), (4, 1), (0, 3), (3, 0)]:
                    tt = 'quick' if (t == 'quick' and (w, h) in [(3, 2), (1, 4), (4, 3), (0, 3)]) else 'thorough'
                    qs.append(Q('laws/%s/%s/%dx%d' % (s, f, w, h), 'C03/nav.cpp', e, defs=dict(d, FIXW=w, FIXH=h), unwind=8, tier=tt))
                continue
            qs.append(Q('%s/%s/%s' % (e[2:], s, f), 'C03/nav.cpp', e, defs=d, unwind=8, tier=t))
    return qs
