BOUNDS = 'wip'
OUTSIDE = 'wip'
ASSUMPTIONS = []
XF = dict(flipud=1, fliplr=2, transposed=3, rot90cw=4, rot90ccw=5, rot180=6, subimage=7, subimage_pt=8, subsampled=9, subsampled_pt=10, nth_channel=11, color_converted=12, color_converted_cc=13)
ALTN = ['gray8', 'rgb8', 'rgb8p']
def queries(tier, seed):
    qs = []
    for a in range(3):
        for (w, h) in [(3, 2), (0, 0), (1, 3)]:
            qs.append(Q('obs/%s/%dx%d' % (ALTN[a], w, h), 'C14/dyn.cpp', 'h_observers', defs=dict(C14_ALT=a), params=[w, h], unwind=6, rt_unwind=16, tier='quick', timeout=120))
        for xf, code in XF.items():
            for (w, h) in [(3, 2)]:
                qs.append(Q('xf/%s/%s/%dx%d' % (xf, ALTN[a], w, h), 'C14/dyn.cpp', 'h_xf', defs=dict(C14_ALT=a, C14_XF=code), params=[w, h], unwind=6, rt_unwind=16, tier='quick', timeout=120))
    ALG = dict(copy=1, convert=2, convert_cc=3)
    FORM = ['vv', 'vc', 'cv']
    for a in range(3):
        for b in range(3):
            for alg, code in ALG.items():
                for f in range(3):
                    for (w, h) in [(3, 2)]:
                        qs.append(Q('%s/%s-%s/%s/%dx%d' % (alg, ALTN[a], ALTN[b], FORM[f], w, h), 'C14/dyn.cpp', 'h_alg2', defs=dict(C14_ALT=a, C14_ALTB=b, C14_ALG=code, C14_FORM=f), params=[w, h], unwind=6, rt_unwind=24, tier='quick', timeout=120))
            for f in range(3):
                for (w, h, ex, ey) in [(3, 2, -1, -1), (3, 2, 2, 1)]:
                    qs.append(Q('equal/%s-%s/%s/%dx%d_d%s' % (ALTN[a], ALTN[b], FORM[f], w, h, 'none' if ex < 0 else '%d%d' % (ex, ey)), 'C14/dyn.cpp', 'h_equal', defs=dict(C14_ALT=a, C14_ALTB=b, C14_FORM=f), params=[w, h, ex, ey], unwind=6, rt_unwind=24, tier='quick', timeout=120))
    VAL = dict(gray8='gil::gray8_pixel_t', rgb8='gil::rgb8_pixel_t', bgr8='gil::bgr8_pixel_t')
    for b in range(3):
        for vn, vt in VAL.items():
            qs.append(Q('fill/%s/val_%s/3x2' % (ALTN[b], vn), 'C14/dyn.cpp', 'h_alg1', defs=dict(C14_ALTB=b, C14_ALG=5, C14_VAL=vt), params=[3, 2], unwind=6, rt_unwind=24, tier='quick', timeout=120))
        qs.append(Q('foreach/%s/3x2' % ALTN[b], 'C14/dyn.cpp', 'h_alg1', defs=dict(C14_ALTB=b, C14_ALG=6), params=[3, 2], unwind=6, rt_unwind=24, tier='quick', timeout=120))
    return qs
