BOUNDS = ('type list {gray8, rgb8 interleaved, rgb8 planar} (any_image_view<gray8_view_t, rgb8_view_t, rgb8_planar_view_t>, any_image of the three image types over the checking allocator; '
          'thorough also gray8_image_t/rgb8_image_t/rgb8_planar_image_t with std::allocator); held alternative (ordered pair source/destination for binary algorithms, overload form '
          'variant-variant / variant-view / view-variant) concrete per query; dimensions concrete per query (quick 3x2 plus 1x1, 0x2, 1x3; thorough also 2x3, 2x0), views over exact-size heap buffers with one padding byte per row; '
          'pixel contents, probed pixel (x,y), probed destination byte (plane, index), sub-image rectangle, subsampling steps (1..3), channel index, fill value symbolic; '
          'equal_pixels / any_image ==: second operand = first except one channel of one pixel at a concrete position changed by a symbolic amount; '
          'user colour converter = first channel xor constant; resample_pixels: nearest neighbour with a concrete integer translation; '
          'apply_operation (deprecated spelling of visit, unary and binary) and dynamic_at_c::at_c with a symbolic index; expected result of every algorithm = the same GIL algorithm on the concrete views applied to an identical destination buffer (incompatible pair: bad_cast and the untouched buffer)')
OUTSIDE = ('longer or other type lists (in particular lists whose transformed view types coincide, apart from nth_channel_view where gray8 and planar rgb8 map to the same type); sizes above 3x3; '
           'mismatched source/destination dimensions (precondition of the algorithms); bilinear resampling and non-integer / rotating matrices on variants (C17); move construction/assignment of any_image (not in the property); '
           'any_image with allocations above 4 KiB; recreate with a non-zero alignment for std::allocator images (blocks from operator new have no modelled integer address; checked with the checking allocator instead); default rgb->gray luminance through color_converted_view / copy_and_convert_pixels on variants is checked in the thorough tier only (30-40 s per query), quick tier uses 1x1')
ASSUMPTIONS = ['the concrete GIL algorithm on concrete views is the oracle for the variant overload (its own correctness is C04/C09)',
               'interleaved and planar rgb8 views are compatible with each other, gray8 with neither (as documented: same colour space and channel type)',
               'buffers are exact-size heap objects: any access outside them is a failed proof obligation']
XF = dict(flipud=1, fliplr=2, transposed=3, rot90cw=4, rot90ccw=5, rot180=6, subimage=7, subimage_pt=8, subsampled=9, subsampled_pt=10, nth_channel=11, color_converted=12, color_converted_cc=13)
ALTN = ['gray8', 'rgb8', 'rgb8p']
ALG = dict(copy=1, convert=2, convert_cc=3)
FORM = ['vv', 'vc', 'cv']
VAL = dict(gray8='gil::gray8_pixel_t', rgb8='gil::rgb8_pixel_t', bgr8='gil::bgr8_pixel_t')
OPS = dict(observe=0, copy_ctor=1, copy_assign=2, assign_image=3, equality=4, recreate=5, recreate_pt=6, view_copy=7, view_assign=8, view_equality=9, view_assign_view=10,
           assign_other_list=11, view_assign_other_list=12)
NEEDS_B = ('copy_assign', 'assign_image', 'equality', 'view_copy', 'view_assign', 'view_equality', 'view_assign_view', 'assign_other_list', 'view_assign_other_list')
DYN = 'C14/dyn.cpp'
def queries(tier, seed):
    qs = []
    Q_, T_ = 'quick', 'thorough'
    def uw(w, h): return max(w, h) + 3
    dims_all = [(3, 2), (1, 1), (0, 2), (1, 3), (2, 3), (2, 0)]
    # ---- observers: dimensions / width / height / num_channels / size of the variant == of the held view
    for a in range(3):
        for (w, h) in dims_all:
            qs.append(Q('obs/%s/%dx%d' % (ALTN[a], w, h), DYN, 'h_observers', defs=dict(C14_ALT=a), params=[w, h], unwind=uw(w, h), rt_unwind=24,
                        tier=Q_ if (w, h) in ((3, 2), (0, 2)) else T_, timeout=120))
    # ---- view transformations: result variant holds the corresponding alternative == the concrete transformation's result
    for a in range(3):
        for xf, code in XF.items():
            for (w, h) in dims_all:
                quick = (w, h) == (3, 2) or ((w, h) == (1, 3) and xf in ('rot90cw', 'subsampled') and a == 2) or ((w, h) == (0, 2) and xf == 'rot180' and a == 1)
                defs = dict(C14_ALT=a, C14_XF=code)
                qs.append(Q('xf/%s/%s/%dx%d' % (xf, ALTN[a], w, h), DYN, 'h_xf', defs=defs, params=[w, h], unwind=uw(w, h), rt_unwind=24, tier=Q_ if quick else T_, timeout=150))
        # default colour conversion to gray8 (rgb -> gray luminance on both sides of the comparison: ~30 s) and user converter to gray8
        for xf in ('color_converted', 'color_converted_cc'):
            for (w, h) in [(3, 2), (1, 1)]:
                qs.append(Q('xf/%s_to_gray8/%s/%dx%d' % (xf, ALTN[a], w, h), DYN, 'h_xf', defs=dict(C14_ALT=a, C14_XF=XF[xf], C14_CCDST='gil::gray8_pixel_t'), params=[w, h],
                            unwind=uw(w, h), rt_unwind=24, tier=Q_ if (xf == 'color_converted_cc' and (w, h) == (3, 2)) or (xf == 'color_converted' and (w, h) == (1, 1) and a == 1) else T_, timeout=300))
    # ---- binary algorithms: ordered pair of alternatives x overload form
    for a in range(3):
        for b in range(3):
            compat = (a == b) or (a != 0 and b != 0)
            for alg, code in ALG.items():
                for f in range(3):
                    for (w, h) in dims_all:
                        heavy = alg == 'convert' and a != 0 and b == 0      # default rgb -> gray conversion, twice
                        if alg == 'copy': quick = (w, h) == (3, 2) or ((w, h) in ((1, 1), (0, 2)) and f == 0 and (a, b) in ((1, 2), (0, 1)))
                        else: quick = ((w, h) == (3, 2) and not heavy and (f == 0 or (a, b, f) in ((0, 1, 1), (1, 2, 2)))) or (heavy and (w, h) == (1, 1) and f == 0 and a == 1)
                        qs.append(Q('%s/%s-%s/%s/%dx%d' % (alg, ALTN[a], ALTN[b], FORM[f], w, h), DYN, 'h_alg2', defs=dict(C14_ALT=a, C14_ALTB=b, C14_ALG=code, C14_FORM=f), params=[w, h],
                                    unwind=uw(w, h), rt_unwind=24, tier=Q_ if quick else T_, timeout=300))
            # equal_pixels: no pixel differs / the pixel at a concrete position differs by a symbolic amount
            for f in range(3):
                for (w, h) in [(3, 2), (2, 3), (1, 1), (0, 2)]:
                    diffs = [(-1, -1)] + ([(x, y) for y in range(h) for x in range(w)] if compat else [])
                    for (ex, ey) in diffs:
                        quick = (w, h) == (3, 2) and (ex, ey) in ((-1, -1), (2, 1)) and ((f == 0 and (compat or a < b)) or ((a, b, f) in ((0, 0, 1), (1, 2, 2), (2, 1, 1), (0, 1, 2)) and (ex, ey) != (-1, -1)) or (a, b, f) == (1, 0, 1))
                        qs.append(Q('equal/%s-%s/%s/%dx%d_d%s' % (ALTN[a], ALTN[b], FORM[f], w, h, 'none' if ex < 0 else '%d%d' % (ex, ey)), DYN, 'h_equal',
                                    defs=dict(C14_ALT=a, C14_ALTB=b, C14_FORM=f), params=[w, h, ex, ey], unwind=uw(w, h), rt_unwind=24, tier=Q_ if quick else T_, timeout=300))
            # resample_pixels on variants: nearest neighbour, integer translation
            for f in range(3):
                for (tx, ty) in [(0, 0), (1, 0), (-1, 1)]:
                    quick = (a, b, f, (tx, ty)) in ((1, 2, 0, (1, 0)), (0, 0, 1, (-1, 1)), (2, 1, 2, (0, 0)), (0, 1, 0, (0, 0)), (2, 0, 1, (1, 0)))
                    qs.append(Q('resample/%s-%s/%s/3x2_t%d_%d' % (ALTN[a], ALTN[b], FORM[f], tx, ty), DYN, 'h_alg2', defs=dict(C14_ALT=a, C14_ALTB=b, C14_ALG=7, C14_FORM=f, C14_WITH_RESAMPLE=1),
                                params=[3, 2, tx, ty], unwind=6, rt_unwind=24, tier=Q_ if quick else T_, timeout=300))
    # ---- unary algorithms on the variant: fill_pixels (compatible / incompatible value), for_each_pixel
    for b in range(3):
        for (w, h) in dims_all:
            for vn, vt in VAL.items():
                qs.append(Q('fill/%s/val_%s/%dx%d' % (ALTN[b], vn, w, h), DYN, 'h_alg1', defs=dict(C14_ALTB=b, C14_ALG=5, C14_VAL=vt), params=[w, h], unwind=uw(w, h), rt_unwind=24,
                            tier=Q_ if (w, h) == (3, 2) else T_, timeout=150))
            qs.append(Q('foreach/%s/%dx%d' % (ALTN[b], w, h), DYN, 'h_alg1', defs=dict(C14_ALTB=b, C14_ALG=6), params=[w, h], unwind=uw(w, h), rt_unwind=24,
                        tier=Q_ if (w, h) in ((3, 2), (0, 2)) else T_, timeout=150))
    # ---- any_image / any_image_view value semantics (a: alternative under test, b: previous contents of the assignment target / second operand)
    for std in (0, 1):
        for a in range(3):
            for b in range(3):
                for opn, op in OPS.items():
                    if opn not in NEEDS_B and a != b: continue
                    shapes = [((3, 2), (2, 3))] if std else [((3, 2), (2, 3)), ((1, 1), (3, 1)), ((2, 2), (0, 0)), ((0, 0), (2, 1))]
                    for (w, h), (w2, h2) in shapes:
                        variants = [('', w2, h2, 2, 1)]
                        if opn == 'equality':   # same dims: pixel (2,1) / (0,0) / none differs; different dims
                            variants = [('_d21', w, h, 2, 1), ('_d00', w, h, 0, 0), ('_dnone', w, h, -1, -1), ('_otherdims', w2, h2, -1, -1)]
                        for tag, pw2, ph2, ex, ey in variants:
                            for al in ((0, 8) if opn.startswith('recreate') and not std else (0,)):
                                quick = not std and (w, h) == (3, 2) and al == 0 and tag in ('', '_d21', '_otherdims') and (
                                    a == b or (b == (a + 1) % 3 and opn in ('copy_assign', 'equality', 'view_assign', 'view_equality') and tag != '_otherdims'))
                                if opn in ('assign_other_list', 'view_assign_other_list', 'view_assign_view', 'recreate_pt', 'view_copy') and a != 1: quick = False
                                if opn == 'assign_image' and a == 1: quick = False
                                quick = quick or (not std and (w, h) == (0, 0) and a == b and (opn, a) in (('copy_ctor', 0), ('recreate', 1), ('observe', 2)))
                                quick = quick or (not std and al == 8 and (w, h) == (3, 2) and a == b and ((opn == 'recreate') or (opn == 'recreate_pt' and a == 1)))   # row stride under a requested alignment
                                name = 'img%s/%s%s/%s-%s/%dx%d%s' % ('_std' if std else '', opn, tag, ALTN[a], ALTN[b], w, h, '_al%d' % al if al else '')
                                qs.append(Q(name, 'C14/img.cpp', 'h_img', defs=dict(C14_ALT=a, C14_ALTB=b, C14_STDALLOC=std), params=[op, w, h, pw2, ph2, ex, ey, al],
                                            unwind=8, rt_unwind=24, tier=Q_ if quick else T_, timeout=300))
    names = set(); out = []
    for q in qs:
        if q.name in names: continue
        names.add(q.name); out.append(q)
    return out
