BOUNDS = 'image dimensions concrete per query from a grid up to 4x2/3x3, alignment concrete from {0,1,2,4,8,16,32} (quick {0,4,32}), allocator base address residue (mod 64) concrete per query, coordinates and pixel values symbolic; caller-buffer views w,h in 0..4 with symbolic row padding; view transformations depth 1 (depth 2 in C02 thorough)'
OUTSIDE = 'sizes > 3x3 (4x4 for caller buffers); dimensions whose byte size overflows size_t; allocations above 4 KiB'
ASSUMPTIONS = ['the allocator returns a block of exactly the requested size at an arbitrary (unaligned) address', 'coordinates are in range']
ORGS = ['rgb8_img', 'rgb8p_img', 'gray8_img', 'rgba8_img', 'rgba8p_img', 'cmyk8_img', 'rgb16_img', 'rgb16p_img', 'rgb32f_img', 'gray16s_img',
        'rgb565_img', 'bgr556_img', 'bgray1_img', 'bgray2_img', 'bgray4_img', 'brgb222_img', 'bbgr232_img', 'brgb565_img', 'bgray7_img']
QUICK_ORG = ['rgb8_img', 'rgb8p_img', 'rgb16_img', 'rgb565_img', 'bgray1_img', 'brgb222_img', 'bbgr232_img']
XFS = ['xf_flipud', 'xf_fliplr', 'xf_transposed', 'xf_rot90cw', 'xf_rot90ccw', 'xf_rot180', 'xf_subimage', 'xf_subsampled']
PATHS = {0: 'ctor', 1: 'ctor_fill', 2: 'copy', 3: 'assign', 4: 'recreate', 5: 'recreate_fill', 6: 'move'}
DIMS_Q = [(3, 2), (2, 3)]
DIMS_T = [(0, 0), (0, 2), (2, 0), (1, 1), (3, 2), (2, 3), (1, 3), (4, 2)]
ALIGN_Q = [0, 4, 32]
ALIGN_T = [0, 1, 2, 4, 8, 16, 32]
def queries(tier, seed):
    qs = []
    for o in ORGS:
        t = 'quick' if o in QUICK_ORG else 'thorough'
        for p, pn in PATHS.items():
            for (w, h) in DIMS_T:
                for al in ALIGN_T:
                    tt = t if ((w, h) in DIMS_Q and al in ALIGN_Q) else 'thorough'
                    # previous state for assign/recreate paths: a different shape and alignment
                    w0, h0, al0 = (h + 1) % 4, (w + 2) % 4, ALIGN_T[(ALIGN_T.index(al) + 3) % 7]
                    # every accessor on a symbolic in-range pixel + fill_pixels over the whole image; the allocator's base address
                    # residue (mod 64) is a concrete shape parameter: quick one per alignment, thorough a sweep
                    ress = [{0: 5, 4: 3, 32: 17}.get(al, 1)] if (tt == 'quick' or tier == 'quick' or (w, h) not in ((3, 2), (1, 3), (0, 2)) or o not in QUICK_ORG) else [0, 7, 63 - (seed % 8)]
                    if o.startswith('b') and p not in (0, 4, 5) and tt == 'quick': tt = 'thorough'   # bit-aligned: heavier queries
                    for res in ress:
                        qs.append(Q('acc/%s/%s/%dx%d_a%d_r%d' % (o, pn, w, h, al, res), 'C01/img.cpp', 'h_img', defs=dict(IMG=o, PATH=p, XF1='xf_id', ALGOS=1),
                                    params=[w0, h0, al0, w, h, al], cdefs=dict(VP_RESIDUE=res), unwind=14, tier=tt, timeout=300,
                                    shape=dict(IMG=o, PATH=p, params=[w0, h0, al0, w, h, al], residue=res)))
        # recreate that raises the alignment of a live image whose old block is large enough only under the old alignment
        for (w0, h0, al0, w, h, al) in [(2, 1, 0, 1, 1, 8), (3, 1, 0, 2, 1, 16), (2, 2, 2, 1, 2, 32)]:
            for res in (1, 5, 62):
                for pth in (4, 5):
                    qs.append(Q('acc/%s/%s/realign_%dx%d_a%d_to_%dx%d_a%d_r%d' % (o, PATHS[pth], w0, h0, al0, w, h, al, res), 'C01/img.cpp', 'h_img', defs=dict(IMG=o, PATH=pth, XF1='xf_id', ALGOS=1),
                                params=[w0, h0, al0, w, h, al], cdefs=dict(VP_RESIDUE=res), unwind=14, tier=t if (res != 62 and pth == 4 and not o.startswith('b')) else 'thorough', timeout=300,
                                shape=dict(IMG=o, PATH=pth, params=[w0, h0, al0, w, h, al], residue=res)))
        for f in XFS:
            d = dict(IMG=o, PATH=4, XF1=f, ALGOS=1)
            for (w, h) in [(3, 2), (2, 3), (1, 1)]:
                for al in (0, 4):
                    tt = t if (f in ('xf_rot90cw', 'xf_subsampled', 'xf_fliplr', 'xf_subimage') and al == 4 and w > 1) else 'thorough'
                    qs.append(Q('acc/%s/recreate/%s/%dx%d_a%d_r3' % (o, f, w, h, al), 'C01/img.cpp', 'h_img', defs=d, params=[2, 2, 0, w, h, al], cdefs=dict(VP_RESIDUE=3), unwind=14, tier=tt, timeout=300,
                                shape=dict(IMG=o, XF1=f, params=[2, 2, 0, w, h, al], residue=3)))
    # second family: views over a caller-supplied buffer of exactly height x row-bytes (symbolic w,h <= 4, symbolic padding):
    # every accessor + a write through every transformation; the buffer is a heap object of exactly that size
    for s in ['src_rgb8i', 'src_rgb8p', 'src_gray8step', 'src_rgb16i', 'src_rgb565', 'src_gray1', 'src_gray2', 'src_gray4', 'src_rgb222', 'src_bgr232', 'src_rgba8i', 'src_rgb32fi']:
        t = 'quick' if s in ('src_rgb8i', 'src_rgb8p', 'src_gray2', 'src_rgb222', 'src_bgr232') else 'thorough'
        for f in ['xf_id'] + XFS:
            tt = t if f in ('xf_id', 'xf_rot90ccw', 'xf_subsampled', 'xf_rot180') else 'thorough'
            if s in ('src_rgb222', 'src_bgr232'):
                # three bit-aligned channels at a symbolic bit offset: dimensions and the accessor are concrete per query
                for (w, h) in ([(3, 2)] if tier == 'quick' else [(3, 2), (1, 1), (4, 3), (2, 4)]):
                    for sel in range(1, 8):
                        qs.append(Q('buf/%s/%s/%dx%d/acc%d' % (s, f, w, h, sel), 'C01/buf.cpp', 'h_buf', defs=dict(SRC=s, XF1=f, FIXW=w, FIXH=h), params=[sel], unwind=10,
                                    tier=tt if (sel in (1, 2, 4, 7) or f == 'xf_id') else 'thorough', timeout=300))
                continue
            qs.append(Q('buf/%s/%s' % (s, f), 'C01/buf.cpp', 'h_buf', defs=dict(SRC=s, XF1=f), unwind=10, tier=tt, timeout=300))
    return qs
