BOUNDS = ('well-shaped files of concrete variants: BMP 24-bit (bottom-up and top-down) and 32-bit, binary PNM P5/P6, TARGA 24/32-bit raw (bottom-up and top-down), TARGA 24-bit RLE and BMP RLE8/RLE4 with a concrete packet structure (symbolic colour values / indices), palette BMP 1/4/8 bit (partial reads, scanline rows); image 3x2 (quick) up to 4x3 (thorough); '
          'every sub-rectangle (quick: corners and centre) concrete per query; pixel data and the non-structural header bytes symbolic; compared pixel position symbolic')
OUTSIDE = ('run-length-coded data with symbolic packet structure, ASCII PNM (their decoders are covered for safety in C11 only); scanline reader of run-length-coded and bit-packed files; any_image reader (harness MODE 10 exists; the encoding cannot follow the integer-copied pointers of the variant, see the comment in queries()); std::istream devices for anything but the full read_image (C11 covers them for safety); row order of top-down BMP files (all read paths agree with each other, which is what this property states); PNG/JPEG/TIFF')
ASSUMPTIONS = ['read_image through FILE* is the reference result', 'the FILE* model stands for libc']
def queries(tier, seed):
    qs = []
    def add(name, fmt, pix, mode, params, L, w, h, rect=(0, 0, 0, 0), cpix=None, t='quick', probe=(0, 0), refconv=0, stream=None, unw=None, spix=None):
        d = dict(FORMAT=fmt, MODE=mode, PIX=pix, REF_CONVERT=refconv)
        if cpix: d['CPIX'] = cpix
        if spix: d['SPIX'] = spix
        p = [L] + list(params); p += [0] * (12 - len(p)) + [w, h] + list(rect) + list(probe)
        if stream is not None: d['VP_STREAM_AT'] = 22; p += [0, 0, len(stream)] + list(stream)
        qs.append(Q(name, 'C13/agree.cpp', 'h_agree', defs=d, params=p, rt=['file'] + (['ios'] if mode == 8 else []), unwind=max(unw or 0, (w + 2) * (h + 2) + 4, (max(16, 4 * w + 4) if not refconv else 70)), unwindset=([(r'St6vector|fill_n|uninitialized|read_palette', 310)] if refconv else []) + ([(r'scanline_reader|read_palette_image', 2100)] if mode in (7, 9) else []), rt_unwind=L + 4, mem_unwind=400, cdefs=dict(VP_FILE_MAX=L + 8), tier=t, timeout=300))
    variants = []
    for (w, h) in ((3, 2), (4, 3), (1, 1)):
        rb = ((w * 24 + 31) // 32) * 4
        variants.append(('bmp24_%dx%d' % (w, h), 1, 'gil::rgb8_pixel_t', [1, 40, 24, 0, w, h, 0, 54, 0, 0], 54 + h * rb, w, h))
        variants.append(('bmp24td_%dx%d' % (w, h), 1, 'gil::rgb8_pixel_t', [1, 40, 24, 0, w, -h, 0, 54, 0, 0], 54 + h * rb, w, h))
        variants.append(('bmp32_%dx%d' % (w, h), 1, 'gil::rgba8_pixel_t', [1, 40, 32, 0, w, h, 0, 54, 0, 0], 54 + h * w * 4, w, h))
        hl5 = 3 + len(str(w)) + 1 + len(str(h)) + 1 + 4
        variants.append(('pnm5_%dx%d' % (w, h), 2, 'gil::gray8_pixel_t', [5, w, h, 255, 0, 0], hl5 + w * h, w, h))
        variants.append(('pnm6_%dx%d' % (w, h), 2, 'gil::rgb8_pixel_t', [6, w, h, 255, 0, 0], hl5 + w * h * 3, w, h))
        variants.append(('tga24_%dx%d' % (w, h), 3, 'gil::rgb8_pixel_t', [0, 0, 2, 24, 0, w, h, 0, 0], 18 + w * h * 3, w, h))
        variants.append(('tga24td_%dx%d' % (w, h), 3, 'gil::rgb8_pixel_t', [0, 0, 2, 24, 32, w, h, 0, 0], 18 + w * h * 3, w, h))
        variants.append(('tga32_%dx%d' % (w, h), 3, 'gil::rgba8_pixel_t', [0, 0, 2, 32, 8, w, h, 0, 0], 18 + w * h * 4, w, h))
    for (vn, fmt, pix, par, L, w, h) in variants:
        big = (w, h) != (3, 2)
        t0 = 'thorough' if big else 'quick'
        rects = [(x0, y0, dx, dy) for x0 in range(w) for y0 in range(h) for dx in range(1, w - x0 + 1) for dy in range(1, h - y0 + 1)]
        qrects = [(0, 0, 1, 1), (w - 1, h - 1, 1, 1), (1, 0, w - 1, h), (0, 1, w, h - 1), (1, 1, 1, 1)] if w > 1 else [(0, 0, 1, 1)]
        for r in rects:
            if r == (0, 0, w, h): continue
            add('%s/partial/%d_%d_%dx%d' % ((vn,) + r), fmt, pix, 1, par, L, w, h, r, t='quick' if (not big and r in qrects and 'bmp32' not in vn and 'tga32' not in vn) else 'thorough')
        for cp in (['gil::gray8_pixel_t', 'gil::rgb8_pixel_t', 'gil::rgba8_pixel_t', 'gil::rgb16_pixel_t']):
            if cp == pix: continue
            for (px, py) in [(x_, y_) for y_ in range(h) for x_ in range(w)]:
                add('%s/convert/%s/at%d_%d' % (vn, cp.split('::')[1].replace('_pixel_t', ''), px, py), fmt, pix, 2, par, L, w, h, cpix=cp, probe=(px, py),
                    t=t0 if (cp in ('gil::gray8_pixel_t', 'gil::rgba8_pixel_t') and (px, py) in ((0, 0), (w - 1, h - 1))) else 'thorough')
        add('%s/read_view' % vn, fmt, pix, 3, par, L, w, h, t=t0)
        add('%s/name_vs_file' % vn, fmt, pix, 4, par, L, w, h, t=t0)
        add('%s/istream_vs_file' % vn, fmt, pix, 8, par, L, w, h, t=t0)
        # MODE 10 (read_image into an any_image) is not registered: moving the variant's image alternative copies its pointers as integers and the
        # translator's integer->pointer model only resolves ledger blocks (env.inttoptr_unknown_object): counterexamples do not reproduce natively
        add('%s/info' % vn, fmt, pix, 5, par, L, w, h, t=t0)
        if w > 1: add('%s/too_small_view' % vn, fmt, pix, 6, par, L, w, h, t=t0)
        if w > 1 and h > 1:
            for (r, short) in (((0, 1, w, h - 1), 0), ((1, 0, w - 1, h), 1), ((1, 1, w - 1, h - 1), 0), ((0, 0, w, h), 0)):
                add('%s/too_small_view_rect/%d_%d_%dx%d_%s' % ((vn,) + r + ('rows' if short == 0 else 'cols',)), fmt, pix, 11, par, L, w, h, r, probe=(short, 0), unw=(w + 2) * (h + 2) + 6,
                    t=t0 if (r in ((0, 1, w, h - 1), (1, 0, w - 1, h)) and 'bmp32' not in vn and 'tga32' not in vn) else 'thorough')
    # palette BMP (8- and 4-bit, 4 declared colours): partial read == crop of the full converting read
    for bpp in (8, 4):
        for (w, h) in ((3, 2), (4, 3)):
            rb = ((w * bpp + 31) // 32) * 4
            par = [1, 40, bpp, 0, w, h, 4, 54 + 16, 0, 0]
            L = 54 + 16 + h * rb
            rects = [(x0, y0, dx, dy) for x0 in range(w) for y0 in range(h) for dx in range(1, w - x0 + 1) for dy in range(1, h - y0 + 1) if (x0, y0, dx, dy) != (0, 0, w, h)]
            for r in rects:
                quick = (w, h) == (3, 2) and bpp == 8 and r in ((0, 1, 3, 1), (1, 1, 1, 1), (0, 0, 3, 1), (2, 0, 1, 2))
                add('bmp%dpal_%dx%d/partial/%d_%d_%dx%d' % ((bpp, w, h) + r), 1, 'gil::rgb8_pixel_t', 1, par, L, w, h, r, t='quick' if quick else 'thorough', refconv=1)
    # run-length-coded files with concrete packet structure and symbolic colour values: partial read == crop of the full read
    S = 256
    for desc, tdn in ((0, ''), (32, 'td')):
        st = [0x82, S, S, S, 0x02, S, S, S, S, S, S, S, S, S]     # 3x2, 24 bit: a run of 3 pixels, then 3 raw pixels
        w, h = 3, 2
        for r in [(x0, y0, dx, dy) for x0 in range(w) for y0 in range(h) for dx in range(1, w - x0 + 1) for dy in range(1, h - y0 + 1) if (x0, y0, dx, dy) != (0, 0, w, h)]:
            add('tga24rle%s_3x2/partial/%d_%d_%dx%d' % ((tdn,) + r), 3, 'gil::rgb8_pixel_t', 1, [0, 0, 10, 24, desc, w, h, -1, 18], 18 + len(st), w, h, r, stream=st, unw=24,
                t='quick' if r in ((0, 1, 3, 1), (1, 1, 1, 1), (0, 0, 3, 1), (2, 0, 1, 2)) else 'thorough')
        add('tga24rle%s_3x2/read_view' % tdn, 3, 'gil::rgb8_pixel_t', 3, [0, 0, 10, 24, desc, w, h, -1, 18], 18 + len(st), w, h, stream=st, unw=24, t='quick' if not tdn else 'thorough')
    for comp, bpp in ((1, 8), (2, 4)):
        st = [3, S, 0, 0, 2, S, 1, S, 0, 0, 0, 1]                  # 3x2: one run per row / two runs in the second row, end of line, end of bitmap
        w, h = 3, 2; ds = 54 + 16
        for r in [(x0, y0, dx, dy) for x0 in range(w) for y0 in range(h) for dx in range(1, w - x0 + 1) for dy in range(1, h - y0 + 1) if (x0, y0, dx, dy) != (0, 0, w, h)]:
            add('bmp%drle_3x2/partial/%d_%d_%dx%d' % ((bpp,) + r), 1, 'gil::rgb8_pixel_t', 1, [1, 40, bpp, comp, w, h, 4, ds, -1, ds], ds + len(st), w, h, r, stream=st, refconv=1,
                t='quick' if (bpp == 8 and r in ((0, 1, 3, 1), (1, 1, 1, 1), (0, 0, 3, 1), (2, 0, 1, 2))) else 'thorough')
    # scanline reader rows == rows of the (converting) full read, palette BMP 1/4/8 bit (rgba8 scanlines)
    for bpp in (1, 4, 8):
        for (w, h) in ((1, 2), (3, 2), (5, 2)):
            rb = ((w * bpp + 31) // 32) * 4
            ncol = 2 if bpp == 1 else 4
            par = [1, 40, bpp, 0, w, h, ncol, 54 + 4 * ncol, 0, 0]
            L = 54 + 4 * ncol + h * rb
            for yy in range(h):
                add('bmp%dpal_%dx%d/scanline/row%d' % (bpp, w, h, yy), 1, 'gil::rgba8_pixel_t', 7, par, L, w, h, (0, yy, 0, 0), t='quick' if (bpp in (1, 4) and w in (1, 3)) else 'thorough', refconv=1)
    # scanline reader with skipped rows (iterator incremented without dereference): raw formats incl. ASCII PNM (concrete seeded digits)
    for (w, h) in ((3, 2), (2, 3)):
        rb = ((w * 24 + 31) // 32) * 4
        hl = 3 + len(str(w)) + 1 + len(str(h)) + 1 + 4
        sk = [('bmp24', 1, 'gil::rgb8_pixel_t', [1, 40, 24, 0, w, h, 0, 54, 0, 0], 54 + h * rb),
              ('pnm2', 2, 'gil::gray8_pixel_t', [2, w, h, 255, 0, seed % 97], hl + w * h * 4), ('pnm3', 2, 'gil::rgb8_pixel_t', [3, w, h, 255, 0, seed % 97], hl + w * h * 12),
              ('pnm5', 2, 'gil::gray8_pixel_t', [5, w, h, 255, 0, 0], hl + w * h), ('pnm6', 2, 'gil::rgb8_pixel_t', [6, w, h, 255, 0, 0], hl + w * h * 3),
              ('tga24', 3, 'gil::rgb8_pixel_t', [0, 0, 2, 24, 0, w, h, 0, 0], 18 + w * h * 3)]   # top-down TARGA: the scanline reader refuses it by design
        for (vn, fmt, pix, par, L) in sk:
            for yy in range(h):
                add('%s_%dx%d/scanline_skip/row%d' % (vn, w, h, yy), fmt, pix, 9, par, L, w, h, (0, yy, 0, 0), t='quick' if (w, h) == (3, 2) or (yy == 2 and 'pnm' in vn) else 'thorough',
                    unw=(40 if vn in ('pnm2', 'pnm3') else None), spix=('gil::bgr8_pixel_t' if vn in ('bmp24', 'tga24') else None))
    return qs
