BOUNDS = 'w,h symbolic in 0..4 (3 for compositions), row padding 0..3 bytes, subimage rectangle and subsample steps 1..3 symbolic, all coordinates symbolic; compositions up to depth 2'
OUTSIDE = 'sizes > 4, compositions deeper than 2, user-defined locators'
ASSUMPTIONS = ['source views are built over exact-size heap buffers by the harness (interleaved_view / planar_rgb_view / locator constructors)']
XFS = ['xf_flipud', 'xf_fliplr', 'xf_transposed', 'xf_rot90cw', 'xf_rot90ccw', 'xf_rot180', 'xf_subimage', 'xf_subsampled']
ADDR = ['src_rgb8i', 'src_rgb8p', 'src_gray8step', 'src_rgb16i', 'src_rgb565', 'src_gray1', 'src_gray2', 'src_rgb222', 'src_bgr232', 'src_rgba8i']
VAL = ['src_deref', 'src_virtual']
QUICK_SRC = ['src_rgb8i', 'src_rgb8p', 'src_gray8step', 'src_bgr232', 'src_deref', 'src_virtual']

def queries(tier, seed):
    qs = []
    for s in ADDR + VAL:
        addr = 1 if s in ADDR else 0
        for f in XFS:
            t = 'quick' if s in QUICK_SRC else 'thorough'
            d = dict(SRC=s, XF1=f, ADDRESSABLE=addr)
            qs.append(Q('xf/%s/%s' % (s, f), 'C02/xf.cpp', 'h_xf', defs=d, unwind=6, tier=t))
            if addr:
                qs.append(Q('write/%s/%s' % (s, f), 'C02/xf.cpp', 'h_xf_write', defs=d, unwind=10, tier=t))
    return qs
