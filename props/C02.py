BOUNDS = 'w,h symbolic in 0..4 (3 for compositions), row padding 0..3 bytes, subimage rectangle and subsample steps 1..3 symbolic, all coordinates symbolic; compositions up to depth 2'
OUTSIDE = 'sizes > 4, compositions deeper than 2, user-defined locators'
ASSUMPTIONS = ['source views are built over exact-size heap buffers by the harness (interleaved_view / planar_rgb_view / locator constructors)']
XFS = ['xf_flipud', 'xf_fliplr', 'xf_transposed', 'xf_rot90cw', 'xf_rot90ccw', 'xf_rot180', 'xf_subimage', 'xf_subsampled']
ADDR = ['src_rgb8i', 'src_rgb8p', 'src_gray8step', 'src_rgb16i', 'src_rgb565', 'src_gray1', 'src_gray2', 'src_rgb222', 'src_bgr232', 'src_rgba8i']
VAL = ['src_deref', 'src_virtual']
QUICK_SRC = ['src_rgb8i', 'src_rgb8p', 'src_gray8step', 'src_bgr232', 'src_deref', 'src_virtual']

def queries(tier, seed):
    qs = []
    for s in ADDR + VAL:
        addr = 1 if s in ADDR else 0
        for f in XFS:
            t = 'quick' if s in QUICK_SRC else 'thorough'
            d = dict(SRC=s, XF1=f, ADDRESSABLE=addr)
            qs.append(Q('xf/%s/%s' % (s, f), 'C02/xf.cpp', 'h_xf', defs=d, unwind=6, tier=t))
            if addr:
                qs.append(Q('write/%s/%s' % (s, f), 'C02/xf.cpp', 'h_xf_write', defs=d, unwind=10, tier=t))
    # nth_channel_view over memory-based and function-object sources, also under a further transformation and after const conversion
    for s, addr in (('src_rgb8i', 1), ('src_rgb8p', 1), ('src_rgba8i', 1), ('src_rgb16i', 1), ('src_deref3', 0), ('src_virtual', 0)):
        for f in ['xf_id'] + XFS:
            t = 'quick' if f in ('xf_id', 'xf_fliplr', 'xf_rot90cw') and s != 'src_rgb16i' else 'thorough'
            qs.append(Q('nth/%s/%s' % (s, f), 'C02/xf.cpp', 'h_nth', defs=dict(SRC=s, XF1=f, ADDRESSABLE=addr, NTH=1), unwind=10, tier=t))
    # depth-2 compositions XF1 then XF2 (quick: a spread of pairs per source kind; thorough: all ordered pairs)
    qpairs = [('xf_flipud', 'xf_flipud'), ('xf_rot90cw', 'xf_fliplr'), ('xf_subsampled', 'xf_flipud'), ('xf_transposed', 'xf_rot180'), ('xf_rot180', 'xf_flipud'), ('xf_subimage', 'xf_rot90ccw'), ('xf_fliplr', 'xf_subsampled')]
    for s in ADDR + VAL:
        addr = 1 if s in ADDR else 0
        for f1 in XFS:
            for f2 in XFS:
                t = 'quick' if ((f1, f2) in qpairs and s in ('src_rgb8i', 'src_rgb8p', 'src_virtual', 'src_deref', 'src_gray8step')) else 'thorough'
                d = dict(SRC=s, XF1=f1, XF2=f2, ADDRESSABLE=addr, VP_MAXDIM=3)
                qs.append(Q('xf2/%s/%s+%s' % (s, f1, f2), 'C02/xf.cpp', 'h_xf', defs=d, unwind=6, tier=t))
                if addr and (s in ('src_rgb8i', 'src_rgb8p') or tier == 'thorough') and 'gray1' not in s:
                    qs.append(Q('write2/%s/%s+%s' % (s, f1, f2), 'C02/xf.cpp', 'h_xf_write', defs=d, unwind=10, tier=t))
    return qs
