BOUNDS = ('operation histories: pre-state in {default, sized, sized-then-shrunk, moved-from} x one operation (quick) or two/three operations (thorough) out of 15 '
          '(recreate x3, copy/move assign both directions, swap, copy ctor, move ctor, self-assign, no-op recreate, converting copy/assign, shrink-in-place, assign from temporary); '
          'allocators equal/unequal, propagate_on_container_move_assignment true/false, propagate_on_container_swap true/false; interleaved and planar rgb8; element lifetime with a counted element type whose k-th construction throws (k concrete: every point of the operation); '
          'fault point (k-th allocation of the history throws bad_alloc) concrete in {none,0,1,2}; dimensions/alignments concrete from a small grid; fill pixel, probe coordinates and written pixels symbolic')
OUTSIDE = 'histories longer than 3 operations (no inductive argument is made); dimensions outside the grid; any_image'
ASSUMPTIONS = ['the checking allocator (chk_alloc) hands out exactly-sized blocks and records every allocate/deallocate in a ledger', 'swap between unequal non-propagating allocators is not exercised (precondition of swap)']
OPS = {0: 'recreate', 1: 'recreate_fill', 2: 'recreate_alloc', 3: 'copy_assign', 4: 'move_assign', 5: 'swap', 6: 'copy_ctor', 7: 'move_ctor', 8: 'self_assign',
       9: 'recreate_same', 10: 'converting', 11: 'shrink', 12: 'assign_temp', 13: 'copy_assign_to_b', 14: 'move_assign_to_b'}
USES_B = {3, 4, 5, 13, 14}
NALLOC = {0: 1, 1: 1, 2: 1, 3: 1, 4: 1, 5: 0, 6: 1, 7: 0, 8: 0, 9: 0, 10: 2, 11: 0, 12: 2, 13: 1, 14: 1}
PRES = {0: 'default', 1: 'sized', 2: 'shrunk', 3: 'movedfrom'}
SHAPES3 = [(2, 2, 0), (1, 1, 8), (3, 1, 32), (0, 0, 0)]
def queries(tier, seed):
    qs = []
    def add(cfg, pre, ops, idb, fault, s3, t, res=3):
        planar, pocma, pocs = cfg
        o = list(ops) + [-1] * (3 - len(ops))
        w3, h3, a3 = s3
        params = [pre, idb, fault, 2, 1, 0, 1, 2, 4, w3, h3, a3]
        name = '%s_ma%d_sw%d/%s/%s/idb%d/f%s/%dx%d_a%d' % ('planar' if planar else 'inter', pocma, pocs, PRES[pre], '+'.join(OPS[x] for x in ops), idb, 'none' if fault < 0 else fault, w3, h3, a3)
        qs.append(Q(name, 'C10/hist.cpp', 'h_hist', defs=dict(CFG_PLANAR=planar, CFG_POCMA=pocma, CFG_POCS=pocs, OP1=o[0], OP2=o[1], OP3=o[2]), params=params, cdefs=dict(VP_RESIDUE=res), unwind=12, tier=t, timeout=300,
                    shape=dict(planar=planar, pocma=pocma, pocs=pocs, pre=PRES[pre], ops=[OPS[x] for x in ops], idb=idb, fault=fault, new_shape=s3, a_shape=(2, 1, 0), b_shape=(1, 2, 4), residue=res)))
    cfgs = [(0, 0, 1), (0, 1, 1), (1, 0, 1), (0, 0, 0), (1, 1, 0)]
    for cfg in cfgs:
        for pre in PRES:
            for op in OPS:
                for idb in ((1, 2) if op in USES_B else (1,)):
                    if cfg[2] == 0 and op == 5 and idb == 2: continue
                    for fault in [-1] + list(range(NALLOC[op] + (1 if pre == 3 else 0))):
                        shapes = SHAPES3 if op in (0, 1, 2, 12) else [SHAPES3[0]]
                        for s3 in shapes:
                            shape_ok = (s3 == SHAPES3[0] or (s3 in (SHAPES3[1], SHAPES3[2]) and op in (0, 1, 2)) or (s3 == SHAPES3[1] and op == 12))
                            quick = shape_ok and fault <= 0 and not (pre == 3 and op in (8, 9, 11)) and (
                                (cfg == (0, 0, 1) and (pre in (1, 2) or op in (0, 3, 4, 6, 7, 12)))
                                or (cfg == (0, 1, 1) and op in (4, 5, 7, 14) and pre in (1, 3))
                                or (cfg == (1, 0, 1) and pre == 1 and op in (0, 1, 3, 4, 6, 10) and fault < 0))
                            add(cfg, pre, [op], idb, fault, s3, 'quick' if quick else 'thorough')
    # a few two-operation histories in the quick tier: a capacity-changing step followed by a recreate that must notice it
    for (o1, o2, s3) in [(5, 0, (2, 2, 0)), (3, 0, (2, 2, 0)), (13, 11, (2, 2, 0)), (4, 1, (1, 1, 8)), (0, 0, (1, 1, 8)), (12, 9, (2, 2, 0))]:
        for idb in (1, 2):
            add((0, 0, 1), 1, [o1, o2], idb, -1, s3, 'quick')
    if tier == 'thorough':
        # two-operation histories after the default and the sized pre-state, every fault point
        pair_ops = [0, 1, 3, 4, 5, 6, 7, 10, 11, 13, 14]
        for cfg in [(0, 0, 1), (0, 1, 1), (1, 0, 1)]:
            for pre in (0, 1):
                for o1 in pair_ops:
                    for o2 in pair_ops:
                        for idb in ((1, 2) if (o1 in USES_B or o2 in USES_B) else (1,)):
                            for fault in [-1] + list(range(NALLOC[o1] + NALLOC[o2])):
                                add(cfg, pre, [o1, o2], idb, fault, SHAPES3[(o1 + o2 + seed) % 3], 'thorough')
        # a few three-operation histories (seeded choice)
        import random
        rnd = random.Random(seed)
        for k in range(60):
            o = [rnd.choice(pair_ops) for _ in range(3)]
            add((rnd.choice([0, 1]), rnd.choice([0, 1]), 1), rnd.choice([0, 1, 2]), o, rnd.choice([1, 2]), rnd.choice([-1, 0, 1, 2, 3]), SHAPES3[k % 3], 'thorough')
    # element lifetime with a counted, non-trivial element type and a throwing element constructor
    ELOPS = {1: 'fill_construct', 2: 'copy_construct', 3: 'copy_assign', 4: 'recreate_fill', 5: 'default_construct'}
    for op, on in ELOPS.items():
        for (w, h, al) in ((2, 2, 16), (2, 2, 0), (3, 2, 8), (1, 3, 0)):
            n = {1: (w + 1) * h, 2: w * h, 3: (w + 1) * (h + 1) + w * h, 4: (w + 1) * (h + 1), 5: w * (h + 1)}[op]
            for b in [-1] + list(range(0, n)):
                quick = (w, h, al) in ((2, 2, 16), (2, 2, 0)) and (b in (-1, 0, 1, 2, 3, n - 1)) and op in (1, 2, 3, 4)
                qs.append(Q('elem/%s/%dx%d_a%d/throw_at_%s' % (on, w, h, al, 'none' if b < 0 else b), 'C10/elem.cpp', 'h_elem', params=[op, w, h, al, b], cdefs=dict(VP_RESIDUE=5),
                            unwind=16, tier='quick' if quick else 'thorough', timeout=300, shape=dict(op=on, w=w, h=h, align=al, throw_at=b)))
    names = set(); out = []
    for q in qs:
        if q.name in names: continue
        names.add(q.name); out.append(q)
    return out
