BOUNDS = ('source pixel fully symbolic: all 2^8 gray8, 2^24 rgb8/bgr8, 2^32 rgba8/bgra8/argb8/abgr8 and 2^32 cmyk8 values are one solver query per law and per '
          'ordered pair of pixel types (8 pixel types = 4 colour spaces x every provided layout, 64 ordered pairs); monotonicity of rgb->gray in successor form '
          'f(x) <= f(x with one channel + 1) (equivalent by a chain argument); rgb->gray one-unit bound |100*ms*y - md*(30r+59g+11b)| <= 100*max(ms,md) (ms, md channel maxima; unit = one level of the coarser channel type), for 8-bit sources proved in two steps: '
          'A (solver, all 2^24 pixels) |16384*ms*y - md*(4915r+9667g+1802b)| <= (16384-113)*max(ms,md), B (static_assert) |100*(4915r+9667g+1802b) - 16384*(30r+59g+11b)| <= 11300; '
          'rgb8 -> cmyk8 -> rgb8 within one level, one channel per query; thorough tier: 16-bit and float32 ([0,1]) channels and mixed depths 8<->16, 8<->32f for the canonical layouts, '
          'fully symbolic where the solver decides, otherwise stratified (upper byte of 16-bit channels / exponent of float channels concrete per query); '
          'color_converted_view / copy_and_convert_pixels on a concrete 2x2 view (interleaved; planar rgb8/rgba8/cmyk8 sources) with symbolic contents, all 4 pixels '
          '(rgb/rgba -> cmyk: one pixel position per query, quick tier 2 of the 4 positions per law for rgb8 -> cmyk8; bgra8/argb8/planar rgba8 -> gray8/cmyk8: source alpha concrete per query)')
OUTSIDE = ('signed and 32-bit integer channel types, packed / bit-aligned (heterogeneous) pixels in colour conversion, user-defined colour spaces, layouts or converters; '
           'float32 channel values outside [0,1] or NaN; views larger than 2x2 (the per-pixel loop itself is C04); '
           'gray->cmyk maps gray black to cmyk (0,0,0,0) = white (FIXME in the code): the property text claims black/white preservation only between rgb, opaque rgba and cmyk, so it is not asserted; '
           'rgb -> gray one-unit bound and monotonicity for 16-bit and float32 *sources* over the full value space (generic float path: x/max, three float multiplications, two additions, *max+0.5; '
           'no verdict in 150 s even with two channels concrete and 16 symbolic bits in the third): 16-bit sources are spot-checked only (two channels concrete, 8 symbolic bits in the third), float32 sources not at all; '
           'view agreement for deeper channels is checked for the data-movement pairs only (gray->rgba, rgba->rgba, rgb->rgb); '
           'known thorough-tier finding: rgb16 -> cmyk16 -> rgb16 and rgb32f -> cmyk32f -> rgb32f differ from the original by up to 1.5 8-bit levels (8-bit quantisation + truncation in the rgb->cmyk scale step), the queries are kept and fail')
ASSUMPTIONS = ['float32 channels are assumed to lie in [0,1]',
               'the oracle pairs channels by colour with semantic_at_c<K> (layout mapping itself is C05)',
               'cmyk black is any colour with k == max or c == m == y == max (the colours whose rendering 1-min(1,c(1-k)+k) is 0); cmyk white is (0,0,0,0)']
GRAY, RGB, RGBA, CMYK = 0, 1, 2, 3
CSN = {GRAY: 'gray', RGB: 'rgb', RGBA: 'rgba', CMYK: 'cmyk'}
LAYOUTS = {GRAY: ['gray'], RGB: ['rgb', 'bgr'], RGBA: ['rgba', 'bgra', 'argb', 'abgr'], CMYK: ['cmyk']}
def ptype(layout, depth): return 'gil::%s%s_pixel_t' % (layout, depth)
def types(depth, canonical_only=False):
    ts = []
    for cs in (GRAY, RGB, RGBA, CMYK):
        for l in (LAYOUTS[cs][:1] if canonical_only else LAYOUTS[cs]):
            ts.append((l + depth, cs, ptype(l, depth), l == LAYOUTS[cs][0]))
    return ts

def entries(scs, dcs):
    """(entry, params-suffix list) for one ordered colour-space pair"""
    es = ['h_range']
    if scs == dcs: es.append('h_same')
    if scs != GRAY and dcs != GRAY and scs != dcs: es.append('h_bw')
    if scs == CMYK and dcs in (RGB, RGBA): es.append('h_bw_rich')
    if scs == RGB and dcs == GRAY: es += ['h_gray_diag', 'h_lum_mono', 'h_lum_unit']
    if scs == GRAY and dcs in (RGB, RGBA): es.append('h_gray_to_rgb')
    if scs == RGB and dcs == CMYK: es.append('h_cmyk_round')
    if scs == RGBA and dcs != RGBA: es.append('h_premult')
    if dcs == RGBA: es.append('h_to_rgba')
    return es

def queries(tier, seed):
    qs = []
    def add(name, defs, entry, params=None, t='quick', timeout=120, unwind=6, note=None, solvers=None, heavy=0):
        q = Q(name, 'C09/cc.cpp', entry, defs=defs, params=params or [0, 0, 0, 0, 0, 0], unwind=unwind, tier=t, timeout=timeout, note=note, solvers=solvers or ['minisat:25', 'kissat'])
        q.heavy = heavy
        qs.append(q)
    def views(pair, defs, scs, dcs, vt, quick_positions=(0, 1, 2, 3)):
        # the rgb -> cmyk kernel goes through double (one division, three multiplications): "view result == color_convert result" is then an
        # equivalence of two copies of that circuit; all four pixels in one query had no verdict in 240 s, one pixel per query takes 90-130 s (kissat)
        if dcs == CMYK and scs == RGBA and (defs['SRC_P'].split('::')[1][:4] in ('bgra', 'argb') or defs.get('VIEW_PLANAR')):
            # for these layouts the compiler commutes the operands of the alpha multiplications on one side of the miter (multiplier commutativity on top
            # of the double kernel): no verdict in 400 s per pixel.  Stratified: source alpha concrete per query (0xFF and a seeded value), one pixel per query.
            for pos in range(4):
                for e in ('ccv', 'ccp'):
                    for a in dict.fromkeys((0xFF, ((seed + 1) * 40503 >> 3) & 0xFF)):
                        add('%s/%s_px%d/alpha%02x' % (pair, e, pos, a), defs, 'h_' + e, params=[8, 0, 0, 0, a, pos + 1], t='thorough', timeout=700, solvers=['kissat'],
                            note='stratified: source alpha concrete; one pixel of the 2x2 view per query', heavy=2)
        elif dcs == GRAY and scs == RGBA and defs['SRC_P'].split('::')[1][:4] in ('bgra', 'argb'):
            # same operand commutation in front of the luminance sum: no verdict in 240 s; source alpha concrete per query, all four pixels
            for e in ('ccv', 'ccp'):
                for a in dict.fromkeys((0x00, 0xFF, 0x80, ((seed + 1) * 40503 >> 3) & 0xFF)):
                    add('%s/%s/alpha%02x' % (pair, e, a), defs, 'h_' + e, params=[8, 0, 0, 0, a, 0], t='thorough', timeout=240, solvers=['kissat'], note='stratified: source alpha concrete')
        elif dcs == CMYK and scs in (RGB, RGBA):
            for pos in range(4):
                for e in ('ccv', 'ccp'):
                    t = vt if (scs == RGB and not defs.get('VIEW_PLANAR') and pos in quick_positions[e]) else 'thorough'
                    add('%s/%s_px%d' % (pair, e, pos), defs, 'h_' + e, params=[0, 0, 0, 0, 0, pos + 1], t=t, timeout=400, solvers=['kissat'], note='one pixel of the 2x2 view per query', heavy=2)
        else:
            # "view result == color_convert result" is a miter of two copies of the conversion kernel: kissat (congruence closure) decides it in
            # seconds where minisat has no verdict in 100 s
            add('%s/ccv' % pair, defs, 'h_ccv', t=vt, timeout=240, solvers=['kissat'])
            add('%s/ccp' % pair, defs, 'h_ccp', t=vt, timeout=240, solvers=['kissat'])
    def laws(pair, defs, scs, dcs, t='quick', depth8=True, timeout=120):
        for e in entries(scs, dcs):
            if e == 'h_gray_diag' and not depth8: continue      # claimed for 8-bit sources only
            if e == 'h_lum_mono':
                for k, c in enumerate(('red', 'green', 'blue')): add('%s/lum_mono_%s' % (pair, c), defs, e, params=[0, 0, 0, 0, 0, k], t=t, timeout=timeout)
            elif e == 'h_cmyk_round':
                # one channel per query: the three together had no verdict in 130 s, separately 11-30 s each (kissat)
                for k, c in enumerate(('red', 'green', 'blue')): add('%s/cmyk_round_%s' % (pair, c), defs, e, params=[0, 0, 0, 0, 0, k], t=t, timeout=max(timeout, 240), solvers=['kissat'], heavy=1)
            elif e == 'h_premult' and dcs == CMYK:
                # rgba -> cmyk: two copies of the double-precision kernel; whole pixel: no verdict in 120 s, one destination channel per query: 1-35 s
                for k, c in enumerate(('cyan', 'magenta', 'yellow', 'black')): add('%s/premult_%s' % (pair, c), defs, e, params=[0, 0, 0, 0, 0, k + 1], t=t, timeout=max(timeout, 240), solvers=['kissat'], heavy=1)
            elif e == 'h_premult':
                add('%s/%s' % (pair, e[2:]), defs, e, t=t, timeout=timeout, solvers=['kissat'])
            elif e == 'h_to_rgba' and scs == CMYK:
                add('%s/%s' % (pair, e[2:]), defs, e, t=t, timeout=max(timeout, 240), solvers=['kissat'], heavy=1)   # two copies of the cmyk -> rgb kernel: ~30 s
            else:
                add('%s/%s' % (pair, e[2:]), defs, e, t=t, timeout=timeout)
    # ---------------------------------------------------------------- 8-bit: every ordered pair of pixel types
    t8 = types('8')
    # rgb8 -> cmyk8 views: two of the four pixel positions per view law in the quick tier (the other 15 colour-space pairs cover all four
    # positions in the quick tier), all four in thorough
    qpos = dict(ccv=(seed % 4, (seed + 3) % 4), ccp=((seed + 1) % 4, (seed + 2) % 4))
    for (sn, scs, sp, scan) in t8:
        for (dn, dcs, dp, dcan) in t8:
            defs = dict(SRC_P=sp, DST_P=dp, SRC_CS=scs, DST_CS=dcs)
            pair = '%s_to_%s' % (sn, dn)
            laws(pair, defs, scs, dcs)
            # view agreement: canonical layouts in the quick tier, the other layouts in thorough
            vt = 'quick' if (scan and dcan) else 'thorough'
            views(pair, defs, scs, dcs, vt, qpos)
    # planar sources
    strata8 = list(dict.fromkeys([0x00, 0xFF, 0x80, ((seed + 1) * 40503 >> 3) & 0xFF]))
    for (sn, scs, sp) in (('rgb8', RGB, ptype('rgb', '8')), ('rgba8', RGBA, ptype('rgba', '8')), ('cmyk8', CMYK, ptype('cmyk', '8'))):
        for (dn, dcs, dp, dcan) in t8:
            if not dcan: continue
            defs = dict(SRC_P=sp, DST_P=dp, SRC_CS=scs, DST_CS=dcs, VIEW_PLANAR=1)
            vt = 'quick' if (scs == RGB or dcs == GRAY) else 'thorough'
            pair = 'planar_%s_to_%s' % (sn, dn)
            if scs == RGBA and dcs == GRAY:
                # copy_and_convert_pixels from planar rgba: the compiler commutes the operands of the alpha multiplications in the library's loop, the
                # miter then contains multiplier commutativity (no verdict in 240 s).  Stratified: alpha of every source pixel concrete per query.
                add('%s/ccv' % pair, defs, 'h_ccv', t=vt, timeout=240, solvers=['kissat'])
                for a in strata8:
                    add('%s/ccp/alpha%02x' % (pair, a), defs, 'h_ccp', params=[8, 0, 0, 0, a, 0], t=vt, timeout=240, solvers=['kissat'], note='stratified: source alpha concrete')
            else:
                views(pair, defs, scs, dcs, vt, qpos)
    # ---------------------------------------------------------------- thorough: 16-bit and float32 channels, mixed depths (canonical layouts)
    for (sd, dd) in (('16', '16'), ('32f', '32f'), ('8', '16'), ('16', '8'), ('8', '32f'), ('32f', '8'), ('16', '32f'), ('32f', '16')):
        for (sn, scs, sp, _) in types(sd, True):
            for (dn, dcs, dp, _) in types(dd, True):
                defs = dict(SRC_P=sp, DST_P=dp, SRC_CS=scs, DST_CS=dcs)
                pair = '%s_to_%s' % (sn, dn)
                for e in entries(scs, dcs):
                    if e == 'h_gray_diag' and sd != '8': continue          # claimed for 8-bit sources only
                    if e in ('h_lum_mono', 'h_lum_unit') and sd == '32f': continue    # float sources: even the spot checks below had no verdict in 300 s -> outside
                    if e == 'h_cmyk_round' and sd != dd: continue                       # round trip: same depth on both sides
                    if e in ('h_lum_mono', 'h_lum_unit') and sd != '8':
                        # generic float luminance path (x/max, three float multiplications, two additions, *max+0.5): no verdict in 150 s with all three
                        # channels symbolic, nor with two channels concrete and 16 symbolic bits in the third.  Spot checks only: two channels concrete,
                        # the third with its upper byte concrete (8 symbolic bits)
                        cases = [(k, hb, c1, c2) for k in range(3) for (hb, c1, c2) in ((0x00, 0, 0), (0xFF, 65535, 65535), (0x80, 40000 + seed % 1000, 65535), ((seed * 37 + 11) % 256, 1, 32768))]
                        for (k, hb, c1, c2) in cases:
                            others = [i for i in range(3) if i != k]
                            pr = [1 << k, 0, 0, 0, 0, k if e == 'h_lum_mono' else 0, (1 << others[0]) | (1 << others[1])]
                            pr[1 + k] = hb; pr[1 + others[0]] = c1; pr[1 + others[1]] = c2
                            add('%s/%s/ch%d_%x_%x_%x' % (pair, e[2:], k, hb, c1, c2), defs, e, params=pr, t='thorough', timeout=300, solvers=['kissat'],
                                note='spot check: two channels concrete, the third stratified; the law over the full value space is outside the claim')
                        continue
                    if e == 'h_lum_mono':
                        for k, c in enumerate(('red', 'green', 'blue')): add('%s/lum_mono_%s' % (pair, c), defs, e, params=[0, 0, 0, 0, 0, k], t='thorough', timeout=300)
                    elif e == 'h_cmyk_round':
                        for k, c in enumerate(('red', 'green', 'blue')): add('%s/cmyk_round_%s' % (pair, c), defs, e, params=[0, 0, 0, 0, 0, k], t='thorough', timeout=600, solvers=['kissat'], heavy=1)
                    elif e == 'h_premult' and dcs == CMYK:
                        for k, c in enumerate(('cyan', 'magenta', 'yellow', 'black')): add('%s/premult_%s' % (pair, c), defs, e, params=[0, 0, 0, 0, 0, k + 1], t='thorough', timeout=600, solvers=['kissat'], heavy=1)
                    elif e == 'h_premult':
                        add('%s/%s' % (pair, e[2:]), defs, e, t='thorough', timeout=600, solvers=['kissat'], heavy=1)
                    else:
                        # alpha / range laws across channel depths are cheap: a spread of them is in the quick tier
                        qk = e in ('h_to_rgba', 'h_range') and dcs == RGBA and scs in (GRAY, RGB, CMYK) and (sd, dd) in (('8', '16'), ('8', '32f'), ('32f', '8'), ('16', '8'))
                        add('%s/%s' % (pair, e[2:]), defs, e, t='quick' if qk else 'thorough', timeout=300)
                # views of deeper channels: data-movement pairs only (the float luminance / 16-bit cmyk miters had no verdict in 240 s; the plumbing is depth-independent)
                if sd == dd and (scs, dcs) in ((GRAY, RGBA), (RGBA, RGBA), (RGB, RGB)):
                    views(pair, defs, scs, dcs, 'thorough', qpos)
    qs.sort(key=lambda q: -q.heavy)      # long queries first so that they overlap with the many short ones
    return qs
