BOUNDS = ('source pixel fully symbolic: all 2^8 gray8, 2^24 rgb8/bgr8, 2^32 rgba8/bgra8/argb8/abgr8 and 2^32 cmyk8 values are one solver query per law and per '
          'ordered pair of pixel types (8 pixel types = 4 colour spaces x every provided layout, 64 ordered pairs); monotonicity of rgb->gray in successor form '
          'f(x) <= f(x with one channel + 1) (equivalent by a chain argument); rgb->gray one-unit bound in exact integers: |100*ms*y - md*(30r+59g+11b)| <= 100*max(ms,md) '
          '(unit = one level of the coarser channel type); thorough tier: 16-bit and float32 ([0,1]) channels and mixed depths 8<->16, 8<->32f for the canonical layouts, '
          'fully symbolic where the solver decides, otherwise stratified (upper byte of 16-bit channels / exponent of float channels concrete per query); '
          'color_converted_view / copy_and_convert_pixels on a concrete 2x2 view (interleaved; planar rgb8/rgba8 sources) with symbolic contents, all 4 pixels')
OUTSIDE = ('signed and 32-bit integer channel types, packed / bit-aligned (heterogeneous) pixels in colour conversion, user-defined colour spaces, layouts or converters; '
           'float32 channel values outside [0,1] or NaN; views larger than 2x2 (the per-pixel loop itself is C04); '
           'gray->cmyk maps gray black to cmyk (0,0,0,0) = white (FIXME in the code): the property text claims black/white preservation only between rgb, opaque rgba and cmyk, so it is not asserted; '
           'thorough-tier queries listed as inconclusive in the evidence (float luminance / 16-bit cmyk round trip over the full value space)')
ASSUMPTIONS = ['float32 channels are assumed to lie in [0,1]',
               'the oracle pairs channels by colour with semantic_at_c<K> (layout mapping itself is C05)',
               'cmyk black is any colour with k == max or c == m == y == max (the colours whose rendering 1-min(1,c(1-k)+k) is 0); cmyk white is (0,0,0,0)']
GRAY, RGB, RGBA, CMYK = 0, 1, 2, 3
CSN = {GRAY: 'gray', RGB: 'rgb', RGBA: 'rgba', CMYK: 'cmyk'}
LAYOUTS = {GRAY: ['gray'], RGB: ['rgb', 'bgr'], RGBA: ['rgba', 'bgra', 'argb', 'abgr'], CMYK: ['cmyk']}
def ptype(layout, depth): return 'gil::%s%s_pixel_t' % (layout, depth)
def types(depth, canonical_only=False):
    ts = []
    for cs in (GRAY, RGB, RGBA, CMYK):
        for l in (LAYOUTS[cs][:1] if canonical_only else LAYOUTS[cs]):
            ts.append((l + depth, cs, ptype(l, depth), l == LAYOUTS[cs][0]))
    return ts

def entries(scs, dcs):
    """(entry, params-suffix list) for one ordered colour-space pair"""
    es = ['h_range']
    if scs == dcs: es.append('h_same')
    if scs != GRAY and dcs != GRAY and scs != dcs: es.append('h_bw')
    if scs == CMYK and dcs in (RGB, RGBA): es.append('h_bw_rich')
    if scs == RGB and dcs == GRAY: es += ['h_gray_diag', 'h_lum_mono', 'h_lum_unit']
    if scs == GRAY and dcs in (RGB, RGBA): es.append('h_gray_to_rgb')
    if scs == RGB and dcs == CMYK: es.append('h_cmyk_round')
    if scs == RGBA and dcs != RGBA: es.append('h_premult')
    if dcs == RGBA: es.append('h_to_rgba')
    return es

def queries(tier, seed):
    qs = []
    def add(name, defs, entry, params=None, t='quick', timeout=120, unwind=6, note=None, solvers=None):
        qs.append(Q(name, 'C09/cc.cpp', entry, defs=defs, params=params or [0, 0, 0, 0, 0, 0], unwind=unwind, tier=t, timeout=timeout, note=note, solvers=solvers or ['minisat:25', 'kissat']))
    def views(pair, defs, scs, dcs, vt):
        # the rgb -> cmyk kernel goes through double (one division, three multiplications): "view result == color_convert result" is then an
        # equivalence of two copies of that circuit; all four pixels in one query had no verdict in 240 s, one pixel per query takes ~90 s (kissat)
        if dcs == CMYK and scs in (RGB, RGBA):
            for pos in range(4):
                t = vt if scs == RGB and not defs.get('VIEW_PLANAR') else 'thorough'
                for e in ('ccv', 'ccp'):
                    add('%s/%s_px%d' % (pair, e, pos), defs, 'h_' + e, params=[0, 0, 0, 0, 0, pos + 1], t=t, timeout=300, solvers=['kissat'], note='one pixel of the 2x2 view per query')
        else:
            add('%s/ccv' % pair, defs, 'h_ccv', t=vt, timeout=240)
            add('%s/ccp' % pair, defs, 'h_ccp', t=vt, timeout=240)
    # ---------------------------------------------------------------- 8-bit: every ordered pair of pixel types
    t8 = types('8')
    for (sn, scs, sp, scan) in t8:
        for (dn, dcs, dp, dcan) in t8:
            defs = dict(SRC_P=sp, DST_P=dp, SRC_CS=scs, DST_CS=dcs)
            pair = '%s_to_%s' % (sn, dn)
            for e in entries(scs, dcs):
                if e == 'h_lum_mono':
                    for k, c in enumerate(('red', 'green', 'blue')): add('%s/lum_mono_%s' % (pair, c), defs, e, params=[0, 0, 0, 0, 0, k])
                elif e == 'h_cmyk_round':
                    # one channel per query: the three together had no verdict in 130 s, separately 11-14 s each (kissat)
                    for k, c in enumerate(('red', 'green', 'blue')): add('%s/cmyk_round_%s' % (pair, c), defs, e, params=[0, 0, 0, 0, 0, k], timeout=240, solvers=['kissat'])
                else:
                    add('%s/%s' % (pair, e[2:]), defs, e)
            # view agreement: canonical layouts in the quick tier, the other layouts in thorough
            vt = 'quick' if (scan and dcan) else 'thorough'
            views(pair, defs, scs, dcs, vt)
    # planar sources
    for (sn, scs, sp) in (('rgb8', RGB, ptype('rgb', '8')), ('rgba8', RGBA, ptype('rgba', '8')), ('cmyk8', CMYK, ptype('cmyk', '8'))):
        for (dn, dcs, dp, dcan) in t8:
            if not dcan: continue
            defs = dict(SRC_P=sp, DST_P=dp, SRC_CS=scs, DST_CS=dcs, VIEW_PLANAR=1)
            vt = 'quick' if (scs == RGB or dcs == GRAY) else 'thorough'
            views('planar_%s_to_%s' % (sn, dn), defs, scs, dcs, vt)
    return qs
