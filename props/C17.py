BOUNDS = ('Samplers on gray8 views in exact-size heap objects, previous contents of the result symbolic.  nearest_neighbor_sampler: view dimensions concrete per query from 1x1..3x3, sample point any '
          'float (thorough: also double) in [-2,w+1]x[-2,h+1]: inside iff the point rounded half away from zero lies in the image, the returned pixel is that pixel, it surrounds the point and is within '
          'half a pixel, outside leaves the result untouched, points in the hull of the pixel centres are inside, integer points return their pixel.  '
          'bilinear_sampler: one query per concrete cell floor(p) in [-2,w]x[-2,h] (quick: 3x2 view, every cell class; thorough: 1x1, 2x2, 3x3 views, every cell), fractions k/4 (quick) or k/16 (thorough) with '
          'symbolic numerators: outside => result untouched, hull points inside, inside => min(surrounding) - 1 <= result <= max(surrounding), exact source pixel at integer points; '
          'exact bilinear value (integer arithmetic, truncated) on the grid for cells with at most two contributing pixels and for interior cells with one fraction zero; free float fractions for corner / edge cells (thorough).  '
          'resample_pixels: nearest and bilinear, source and destination dimensions concrete <= 3x3, one concrete destination pixel per query, matrices get_translate / get_scale / scale*translate with symbolic '
          'integer-valued entries (scale in [-2,2], offset in [-3,3]): dst(x,y) == sample(src, transform(M,(x,y))) and, independently, == the source pixel the integer map selects or untouched.  '
          'resize_view to the same size (1x1..3x3, both samplers) == identity, every pixel.  matrix3x2<double> with integer-valued entries in [-4,4]: translate/scale factories and their compositions (all symbolic); '
          'associativity with one factor concrete (boundary + seeded matrices) and the other two symbolic, and fully symbolic for the linear part (thorough); transform(A*B,p) == transform(B,transform(A,p)) with '
          'the left factor concrete; inverse(m)*m == m*inverse(m) == identity and map-then-inverse returns the point for det in {+-1,+-2,+-4} (fully symbolic m: thorough; quick: leading entries concrete).')
OUTSIDE = ('bilinear_sampler with free (non-grid) float fractions in an interior four-pixel cell (no verdict in 600 s in the design probe) and the exact interpolated value for interior cells with both fractions non-zero '
           '(float sum of four products against the integer value: no verdict in 300 s); get_rotate / center_rotate and resample_subimage / resize_view with a rotation or to a different size (sin / cos are not modelled; '
           'resize_view to the same size only needs cos(-0), sin(-0)); scale_lanczos (sin); rounding-error bounds for non-integer matrices; associativity of the translation entries (e, f) with three fully symbolic '
           'matrices and inverse round trips of fully symbolic points and matrices at once (no verdict in 300 s); multi-channel and non-8-bit pixel types; any_image_view overloads of resample_pixels (C14)')
ASSUMPTIONS = ['sample points are finite floats in [-2,w+1]x[-2,h+1]', 'bilinear fractions lie on the 1/4 (quick) or 1/16 (thorough) grid unless stated', 'matrix entries are integers in [-4,4] stored in double',
               'cos(+-0) == 1 and sin(+-0) == +-0 exactly (rt/rt_trig0.c), every other argument of sin / cos fails the query', 'nearest: "within half a pixel" allows 1e-7 for the rounding of x + 0.5 in float']
KS = ['kissat:200', 'cadical']
S = 'C17/sampler.cpp'
R = 'C17/resample.cpp'
REST = r'^(?!.*(between_min_and_max|equals_exact))'      # every obligation except the two arithmetic ones
def nearest(w, h, ct, tier, to=300):
    return Q('nearest/%s/%dx%d' % (ct, w, h), S, 'h_nearest', defs=dict(C17_COORD_T=ct), params=[w, h], unwind=5, rt_unwind=20, tier=tier, timeout=to, solvers=KS)
def bilinear(w, h, x0, y0, G, tier, kx=-1, ky=-1, ct='float', to=300, exact=1):
    g = 'free' if G == 0 else 'grid%d' % G
    name = 'bilinear/%s/%s/%dx%d/cell_%d_%d%s' % (ct, g, w, h, x0, y0, '' if kx < 0 and ky < 0 else '/k_%s_%s' % ('s' if kx < 0 else kx, 's' if ky < 0 else ky))
    # interior cells with two symbolic fractions: the convexity bound and the remaining obligations as separate solver runs, no exact-value oracle
    labels = None if exact else ['between_min_and_max', REST]
    return Q(name, S, 'h_bilinear', defs=dict(C17_COORD_T=ct), params=[w, h, x0, y0, G, kx, ky, exact], unwind=6, rt_unwind=20, tier=tier, timeout=to, solvers=KS, labels=labels)
def cell_queries(w, h, G, tier, ct='float'):
    out = []
    for y0 in range(-2, h + 1):
        for x0 in range(-2, w + 1):
            interior = 0 <= x0 < w - 1 and 0 <= y0 < h - 1
            if not interior: out.append(bilinear(w, h, x0, y0, G, tier, ct=ct))
            else:
                out.append(bilinear(w, h, x0, y0, G, tier, ct=ct, exact=0, to=300 if G <= 4 and ct == 'float' else 900))   # 1/16 grid: 187 s (kissat) in the design probe
                out.append(bilinear(w, h, x0, y0, G, tier, kx=0, ct=ct)); out.append(bilinear(w, h, x0, y0, G, tier, ky=0, ct=ct))
    return out
SAMPLERS = dict(nearest='gil::nearest_neighbor_sampler', bilinear='gil::bilinear_sampler')
def resample(sm, w, h, dw, dh, ox, oy, fam, tier, to=300):
    return Q('resample/%s/%s/%dx%d_to_%dx%d/at_%d_%d' % (sm, ('translate', 'scale', 'scale_translate')[fam], w, h, dw, dh, ox, oy), R, 'h_resample', defs=dict(C17_SAMPLER=SAMPLERS[sm]),
             params=[w, h, dw, dh, ox, oy, fam], unwind=max(w * h, dw * dh) + 3, rt_unwind=20, tier=tier, timeout=to, solvers=KS)
def resize(sm, w, h, tier, to=300):
    return Q('resize_same/%s/%dx%d' % (sm, w, h), R, 'h_resize_same', defs=dict(C17_SAMPLER=SAMPLERS[sm]), params=[w, h], unwind=w * h + 3, rt_unwind=20, rt=['trig0'], tier=tier, timeout=to, solvers=KS)
def matrix(ent, tier, params=None, tag='', to=300, label=None):
    return Q('matrix/%s%s%s' % (ent, tag, '' if label is None else '/' + label), 'C17/matrix.cpp', 'h_' + ent, params=params or [], unwind=9, rt_unwind=20, tier=tier, timeout=to, solvers=KS,
             labels=None if label is None else [label])
def mats(seed, n):
    """boundary + seeded integer matrices with entries in [-4,4]"""
    out = [[4, -4, -4, 4, 4, -4], [3, -2, 4, 1, -4, 2], [0, 1, -1, 0, 2, -3]]
    x = (seed + 1) * 2654435761 & 0xFFFFFFFF
    while len(out) < n:
        m = []
        for i in range(6):
            x = (x * 1103515245 + 12345) & 0x7FFFFFFF; m.append((x >> 8) % 9 - 4)
        out.append(m)
    return out[:n]
def mname(m): return '_'.join(str(v).replace('-', 'm') for v in m)
def det_pairs(det):
    """(a,b) such that a*d - b*c == det has a solution with entries in [-4,4]"""
    ps = []
    for a in range(-4, 5):
        for b in range(-4, 5):
            if any(a * d - b * c == det for c in range(-4, 5) for d in range(-4, 5)): ps.append((a, b))
    return ps
def queries(tier, seed):
    qs = []; Q_ = 'quick'; T_ = 'thorough'
    # ---- nearest neighbour
    for (w, h, t) in [(1, 1, Q_), (3, 2, Q_), (2, 3, Q_), (3, 3, T_), (1, 3, T_), (2, 1, T_)]:
        qs.append(nearest(w, h, 'float', t)); qs.append(nearest(w, h, 'double', T_ if (w, h) != (3, 2) else Q_))
    # ---- bilinear: every cell of a 3x2 view on the 1/4 grid (quick); 1/16 grid, other sizes, double coordinates, free fractions (thorough)
    qs += cell_queries(3, 2, 4, Q_)
    qs += cell_queries(3, 2, 16, T_); qs += cell_queries(1, 1, 4, T_); qs += cell_queries(2, 2, 16, T_); qs += cell_queries(3, 3, 4, T_); qs += cell_queries(3, 3, 16, T_)
    qs += cell_queries(2, 2, 4, T_, ct='double')
    for (x0, y0) in [(-1, -1), (2, 1), (-1, 0), (2, 0), (0, -1), (1, 1), (-2, 0), (3, 1)]:      # corner / edge / outside cells with free fractions
        qs.append(bilinear(3, 2, x0, y0, 0, T_, to=900))
    # ---- resample_pixels
    for sm in SAMPLERS:
        for fam in (0, 1, 2):
            for i, (w, h, dw, dh) in enumerate([(3, 2, 2, 3), (3, 3, 3, 3), (2, 2, 3, 1)]):
                for (ox, oy) in [(0, 0), (dw - 1, dh - 1), (dw // 2, dh // 2)]:
                    qk = (i == 0 and (ox, oy) == (dw - 1, dh - 1)) or (i == 1 and (ox, oy) == (1, 1) and fam == 2 and sm == 'nearest')
                    qs.append(resample(sm, w, h, dw, dh, ox, oy, fam, Q_ if qk else T_, to=600))
    for sm in SAMPLERS:
        for (w, h, t) in [(3, 2, Q_), (1, 1, Q_), (3, 3, Q_ if sm == 'bilinear' else T_), (2, 3, T_), (1, 3, T_)]:
            qs.append(resize(sm, w, h, t))
    # ---- matrix3x2
    qs.append(matrix('identity', Q_))
    for lab in ('translate_moves', 'scale_scales_the_point', 'uniform_scale', 'translations_add', 'scales_multiply', 'scale_then_translate', 'translate_then_scale'):
        qs.append(matrix('compose', Q_, label=lab))
    E6 = ['associative_%s' % x for x in 'abcdef']
    MS = mats(seed, 8)
    for i, m in enumerate(MS):
        t = Q_ if i < 2 else T_
        for lab in E6:
            qs.append(matrix('assoc', t, [1] + m, '/B_%s' % mname(m), label=lab))                        # middle factor concrete: all six entries
            if lab[-1] in 'abcd':
                qs.append(matrix('assoc', Q_ if i == 0 else T_, [0] + m, '/A_%s' % mname(m), label=lab)) # left / right factor concrete: linear part
                qs.append(matrix('assoc', Q_ if i == 1 else T_, [2] + m, '/C_%s' % mname(m), label=lab))
        # the left factor concrete (the right factor concrete had no verdict in 300 s)
        qs.append(matrix('compose_general', t, [0] + m, '/A_%s' % mname(m), label='left_factor_first'))
    for lab in E6[:4]: qs.append(matrix('assoc', T_, [-1, 0, 0, 0, 0, 0, 0], '/symbolic', label=lab, to=900))
    for lab in ('transform_formula', 'integer_point'): qs.append(matrix('compose_general', Q_, [-1, 0, 0, 0, 0, 0, 0], '/symbolic', label=lab))
    for di, det in enumerate((1, -1, 2, -2, 4, -4)):
        dn = 'det_%s' % str(det).replace('-', 'm')
        for lab in ('inverse_times_m', 'm_times_inverse'):
            qs.append(matrix('inverse', T_, [det, 0, 0, 0, 0, 0], '/%s/symbolic' % dn, label=lab, to=900))
        ps = det_pairs(det)
        pick = [ps[(seed * 7 + di * 5 + j * 11) % len(ps)] for j in range(3)] + [(4, -3), (-4, 4)]
        for j, (a, b) in enumerate(dict.fromkeys(p for p in pick if p in ps)):
            t = Q_ if j == 0 else T_
            for lab in ('inverse_times_m', 'm_times_inverse'):
                qs.append(matrix('inverse', t, [det, 2, a, b, 0, 0], '/%s/ab_%s' % (dn, mname([a, b])), label=lab))
            qs.append(matrix('inverse_point', T_, [det, 2, a, b, 0, 0], '/%s/ab_%s' % (dn, mname([a, b])), to=600))
            # all four linear entries concrete (c, d solved from the determinant), translation and point symbolic
            cd = [(c, d) for c in range(-4, 5) for d in range(-4, 5) if a * d - b * c == det]
            c, d = cd[(seed + j) % len(cd)]
            qs.append(matrix('inverse_point', t, [det, 4, a, b, c, d], '/%s/abcd_%s' % (dn, mname([a, b, c, d]))))
    names = set(); out = []
    for q in qs:
        if q.name in names: continue
        names.add(q.name); out.append(q)
    return out
