BOUNDS = ('std-container fillers (extension/histogram/std.hpp): fill_histogram / cumulative_histogram for std::vector<T> and std::array<T,N> over gray8 and rgb8 (interleaved; thorough also planar rgb8 and, '
          'arrays only, gray16) views of concrete dimensions 2x2, 2x1, 1x1, 0x0 with symbolic contents; N in {256, 16, 4, 1}; bin type T = unsigned char for 256 bins (quick; int in the thorough tier: '
          'every 4-byte store into a 1 KiB object costs the model checker 1000 steps) and int for N <= 16; '
          'per-bin exactness for a symbolic bin k and fully symbolic pixels: bin[k] == previous[k] (accumulate) or 0 (non-accumulate) + number of pixels whose gray value v has floor(v*(N-1)/max) == k '
          '(vector: N == max+1 == 256, k == v; previous contents = 3 in every bin and a symbolic count in one bin at a concrete position; previous vector sizes 0, 10, 256, 300); '
          'sum of all bins == previous sum + number of pixels and cumulative_histogram of a filled histogram (monotone in successor form, c[k] == number of pixels with bin <= k, last == total), '
          'vector/array<256> agreement: pixels stratified (upper 2 bits of every channel byte concrete from a seed, lower 6 bits symbolic; accumulate sums 5 bits quick / 6 thorough; 7 bits thorough; 16-bin arrays fully symbolic); '
          'cumulative_histogram(vector) on arbitrary vectors of 0..8 symbolic counts in [0,100000]: prefix sums, monotone, last == total; '
          'helpers of gil::histogram that do not touch the container, fully symbolic: key_from_pixel, key_from_tuple, is_tuple_compatible, detail::tuple_compare (the limit test), detail::tuple_limit, sum/nearest_key of an empty histogram; '
          'thorough tier, attempt with the _Prime_rehash_policy model (rt/rt_hash.c, 12 GB cap): sparse histogram<int> fill_histogram over 1 symbolic gray8 pixel (bin widths 1, 2, 16; accumulate onto / replacing one previous bin with a symbolic key), '
          'over 2 symbolic pixels without previous contents, and 1-D cumulative_histogram over 1 pixel: sum == number of pixels, bin of a symbolic key == number of pixels with value/bin_width == key, cumulative == number of pixels with key <= probed key'
          '; dense (sparsefill=false) non-accumulating re-fill of a populated 1-D sparse histogram with limits: previous contents gone, sum == pixels inside the limits (keys concrete, pixel low bits symbolic where stated)')
OUTSIDE = ('sparse gil::histogram (std::unordered_map) beyond 2 insertions: 2 pixels plus one previous bin exceeded 12 GB, cumulative_histogram over 2 pixels gave no verdict in 850 s; therefore NOT claimed for the sparse histogram: '
           'mask and lower/upper limit filtering inside fill (only the limit predicate tuple_compare is checked), multi-channel keys through the container, dense pre-fill (detail::filler<1>) beyond the re-fill queries named in BOUNDS, sub_histogram over axes (marginalisation) and over key ranges, '
           'normalize, multi-axis cumulative_histogram, min_key/max_key/sorted_keys, equals; std::map filler and cumulative (red-black tree rebalancing is out-of-line code in libstdc++.so, not modelled); '
           'agreement of the std containers with the sparse histogram beyond the 1-pixel case; '
           'std-container sum / cumulative / agreement clauses with all 8 bits of every pixel symbolic (counting problem: no verdict in 150 s on any back end; they follow from the per-bin exactness proved for every bin k of fully symbolic pixels, '
           'because the bins partition the value range); std::vector filler for 16-bit channels (65536 bins exceed the 4 KiB allocation bound of the operator new model); views larger than 2x2; signed and float channels (rejected by static_assert in std.hpp); '
           'histogram_equalization / histogram_matching')
ASSUMPTIONS = ['the gray value binned by the std fillers is GIL\'s default colour conversion of the pixel to gray (C09); the harness oracle calls color_convert for it',
               'documented scaling of std::array<T,N>: bin = size_t(p * ((N - 1.0f) / max)); for 8- and 16-bit channels and every N <= 1000 this equals floor(p*(N-1)/max) exactly (checked by enumeration outside the solver), the oracle uses the integer form',
               'std::__detail::_Prime_rehash_policy::_M_need_rehash is modelled after libstdc++ (max_load_factor 1.0, buckets 1 -> 13 -> 29 -> 59 -> 127)']
UC = 'unsigned char'
STD = 'C19/stdc.cpp'
def queries(tier, seed):
    qs = []
    Q_, T_ = 'quick', 'thorough'
    def add(e, src, dims, acc, prevn, prevk, nb, sd, bint, nbins, t, to=240):
        w, h = dims
        name = '%s/%s/%s%s/%dx%d_acc%d_prev%d_%d_bits%d_s%d' % (e[2:], src[4:], 'u8' if bint == UC else bint, '' if nbins == 256 else '_n%d' % nbins, w, h, acc, prevn, prevk, nb, sd)
        qs.append(Q(name, STD, e, defs=dict(C19_SRC=src, C19_BIN_T=bint, C19_NBINS=nbins), params=[w, h, acc, prevn, prevk, nb, sd], unwind=max(260, prevn + 4), rt_unwind=max(260, prevn + 10), tier=t, timeout=to if t == Q_ else 900, solvers=['kissat']))
    for src in ('src_gray8i', 'src_rgb8i', 'src_rgb8p'):
        t0 = Q_ if src != 'src_rgb8p' else T_
        # ---- std::vector: per-bin exactness (fully symbolic pixels), bin-count handling of previous contents
        for (dims, acc, prevn, prevk, t) in [((2, 2), 0, 0, 0, t0), ((2, 2), 1, 256, 7, t0), ((2, 2), 1, 10, 3, t0), ((2, 2), 1, 300, 280, t0), ((2, 2), 0, 300, 7, t0),
                                             ((1, 1), 1, 256, 255, t0), ((0, 0), 0, 5, 1, t0), ((2, 1), 1, 0, 0, T_), ((1, 2), 0, 256, 0, T_), ((0, 0), 1, 300, 299, T_)]:
            add('h_vec_fill', src, dims, acc, prevn, prevk, 8, 0, UC, 256, t)
            add('h_vec_fill', src, dims, acc, prevn, prevk, 8, 0, 'int', 256, T_)
        # ---- std::vector: sum of bins (stratified pixels)
        for (dims, acc, prevn, prevk, nb, sd, t) in [((2, 2), 0, 0, 0, 6, 1, t0), ((2, 2), 0, 256, 7, 6, 2, t0), ((2, 2), 1, 256, 7, 5, 1, t0), ((2, 2), 1, 10, 3, 5, 3, t0),
                                                     ((2, 2), 0, 0, 0, 7, 1, T_), ((2, 2), 1, 256, 7, 6, 2, T_), ((2, 2), 1, 300, 280, 5, 4, T_), ((2, 1), 0, 0, 0, 7, 5, T_), ((0, 0), 1, 256, 7, 8, 0, T_)]:
            add('h_vec_sum', src, dims, acc, prevn, prevk, nb, sd, UC, 256, t)
        # ---- std::array: per-bin exactness with the documented scaling, N = 256 / 16 / 4 / 1
        for (nbins, bint) in [(256, UC), (16, 'int'), (4, 'int'), (1, 'int')]:
            for acc in (0, 1):
                add('h_arr_fill', src, (2, 2), acc, 0, nbins // 2, 8, 0, bint, nbins, t0 if (nbins in (256, 16) or acc == 0) else T_)
                add('h_arr_fill', src, (1, 1), acc, 0, nbins - 1, 8, 0, bint, nbins, T_)
            add('h_arr_fill', src, (0, 0), 1, 0, 0, 8, 0, bint, nbins, T_)
        add('h_arr_fill', src, (2, 2), 1, 0, 100, 8, 0, 'int', 256, T_)
        for (nbins, bint, acc, nb, sd, t) in [(256, UC, 0, 6, 1, t0), (256, UC, 1, 5, 2, t0), (16, 'int', 0, 8, 0, t0), (16, 'int', 1, 8, 0, t0), (4, 'int', 1, 8, 0, T_), (1, 'int', 1, 8, 0, T_),
                                              (256, UC, 0, 7, 3, T_), (256, UC, 1, 6, 4, T_)]:
            add('h_arr_sum', src, (2, 2), acc, 0, nbins // 3, nb, sd, bint, nbins, t)
        # ---- cumulative histograms of filled containers, vector/array agreement
        add('h_vec_cumulative', src, (2, 2), 0, 0, 0, 6, 1, UC, 256, t0)
        add('h_vec_cumulative', src, (2, 2), 0, 0, 0, 7, 2, UC, 256, T_)
        add('h_vec_cumulative', src, (1, 1), 0, 0, 0, 8, 0, UC, 256, T_)
        add('h_arr_cumulative', src, (2, 2), 0, 0, 0, 6, 1, UC, 256, t0)
        add('h_arr_cumulative', src, (2, 2), 0, 0, 0, 8, 0, 'int', 16, t0)
        add('h_arr_cumulative', src, (2, 2), 0, 0, 0, 8, 0, 'int', 4, T_)
        add('h_arr_cumulative', src, (2, 2), 0, 0, 0, 8, 0, 'int', 1, T_)
        add('h_agree', src, (2, 2), 0, 0, 0, 6, 1, UC, 256, t0)
        add('h_agree', src, (2, 1), 0, 0, 0, 7, 2, UC, 256, T_)
    # ---- 16-bit channels: std::array only (the vector filler needs 65536 bins)
    for (nbins, acc) in [(16, 0), (16, 1), (4, 0), (256, 1)]:
        add('h_arr_fill', 'src_gray16i', (2, 2), acc, 0, nbins // 2, 8, 0, 'int' if nbins <= 16 else UC, nbins, T_)
    add('h_arr_sum', 'src_gray16i', (2, 2), 1, 0, 5, 8, 0, 'int', 16, T_)
    add('h_arr_cumulative', 'src_gray16i', (2, 2), 0, 0, 0, 8, 0, 'int', 16, T_)
    # ---- cumulative_histogram(std::vector) on arbitrary small histograms
    for n in (0, 1, 2, 5, 8):
        qs.append(Q('vec_cumulative_any/n%d' % n, STD, 'h_vec_cumulative_any', defs=dict(C19_SRC='src_gray8i', C19_BIN_T='int', C19_NBINS=16), params=[n], unwind=12, rt_unwind=40, tier=Q_ if n in (0, 1, 5, 8) else T_, timeout=120))
    # ---- gil::histogram helpers that do not touch the container
    for e in ('h_key_from_pixel', 'h_key_from_tuple', 'h_tuple_compare', 'h_empty'):
        qs.append(Q('helpers/%s' % e[2:], 'C19/hist.cpp', e, rt=['hash'], unwind=8, rt_unwind=40, tier=Q_, timeout=120))
    # ---- sparse histogram attempt (thorough): params = w, h, bin width, accumulate, symbolic bits, seed, previous contents
    # (fully symbolic 1x1 accumulate-onto-previous took 865 s, 2x1 795 s: the heavier shapes are stratified to 4 symbolic bits per pixel as well)
    for (w, h, bw, acc, nb, sd, prev) in [(1, 1, 1, 0, 8, 0, 1), (1, 1, 1, 1, 4, 1, 1), (1, 1, 1, 1, 8, 0, 1), (1, 1, 2, 1, 4, 2, 1), (1, 1, 16, 0, 8, 0, 0), (0, 0, 1, 1, 8, 0, 1),
                                          (2, 1, 1, 0, 4, 3, 0), (2, 1, 1, 0, 8, 0, 0), (1, 2, 4, 0, 4, 4, 0)]:
        qs.append(Q('sparse_fill/gray8/%dx%d_bw%d_acc%d_prev%d_bits%d_s%d' % (w, h, bw, acc, prev, nb, sd), 'C19/hist.cpp', 'h_sparse_fill', rt=['hash'], params=[w, h, bw, acc, nb, sd, prev], unwind=16, rt_unwind=40,
                    tier=T_, timeout=1500 if nb == 8 and (acc or w * h > 1) else 900, mem_gb=12, solvers=['kissat']))
    for (w, h, bw) in [(1, 1, 1), (1, 1, 4)]:
        qs.append(Q('sparse_cumulative/gray8/%dx%d_bw%d' % (w, h, bw), 'C19/hist.cpp', 'h_sparse_cumulative', rt=['hash'], params=[w, h, bw, 0, 8, 0, 0], unwind=16, rt_unwind=70, tier=T_, timeout=900, mem_gb=12, solvers=['kissat']))
    names = set(); out = []
    for q in qs:
        if q.name in names: continue
        names.add(q.name); out.append(q)
    # dense re-fill without accumulate over a populated 1-D histogram with limits (pixels: upper bits concrete from the seed, nb low bits symbolic)
    for (w, h, nb, sd, pk, lo, hi, t) in ((1, 1, 0, 1, 8, 3, 5, Q_), (2, 1, 0, 2, 1, 3, 5, Q_), (1, 1, 2, 3, 9, 4, 6, T_), (2, 2, 0, 4, 200, 10, 12, T_)):
        out.append(Q('sparse_refill/gray8/%dx%d_bits%d_s%d_prev%d_lim%d_%d' % (w, h, nb, sd, pk, lo, hi), 'C19/hist.cpp', 'h_sparse_refill', rt=['hash'], params=[w, h, 1, 0, nb, sd, pk, lo, hi],
                    unwind=16, rt_unwind=40, tier=t, timeout=600, mem_gb=12, note='concrete keys: the hash table is executed through the model, pixel low bits symbolic only where stated'))
    return out
