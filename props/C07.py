BOUNDS = 'all pairs (a,b) of every 8-bit, packed (1..16 bit) and 16-bit channel are one symbolic query per law (2^32 pairs for 16-bit); monotonicity is checked in successor form f(a) <= f(a+1) (equivalent by a chain argument); int16 within-one-unit stratified (upper byte of a concrete) in the quick tier; float32 operands in [0,1] (monotonicity: exponents concrete per query, b on a 2^-8 mantissa grid); all x for invert'
OUTSIDE = 'float32 channel_multiply monotonicity for normal-range operands (float multiplier circuits: no verdict within cap on any back end); 16-bit multiply monotonicity over the full pair space (no verdict within cap: stratified instead); 32-bit integer channel_multiply (generic double path) interior laws'
ASSUMPTIONS = ['float channels are assumed to lie in [0,1]', 'packed channel values are assumed to be <= their maximum']
def queries(tier, seed):
    qs = _queries(tier, seed)
    for q in qs: q.nsw = True   # signed overflow in the arithmetic kernels (nsw operations of the IR) is a failed obligation (ub.signed_overflow)
    return qs
def _queries(tier, seed):
    qs = []
    ms = [('std::uint8_t', 0, 0, 8), ('std::int8_t', 0, 0, 8), ('std::uint16_t', 0, 0, 16), ('std::int16_t', 0, 0, 16), ('gil::float32_t', 1, 0, 24)]
    for n in ([1, 2, 5, 6, 7, 8, 10, 16] if tier == 'quick' else range(1, 17)): ms.append(('gil::packed_channel_value<%d>' % n, 0, 1, n))
    quick = {'std::uint8_t', 'std::int8_t', 'std::uint16_t', 'std::int16_t', 'gil::float32_t', 'gil::packed_channel_value<5>', 'gil::packed_channel_value<10>', 'gil::packed_channel_value<1>', 'gil::packed_channel_value<16>'}
    for (m, fl, pk, nb) in ms:
        t = 'quick' if m in quick else 'thorough'
        nm = m.replace('std::', '').replace('gil::', '').replace('packed_channel_value<', 'p').replace('>', '').replace('_t', '')
        d = dict(CH_T=m, IS_FLOAT=fl, IS_PACKED=pk, NBITS=nb)
        for e in ('h_mul_unit', 'h_mul_comm', 'h_mul_mono', 'h_mul_ident', 'h_mul_range', 'h_inv'):
            hard = (e == 'h_mul_mono' and nb == 16 and not pk and not fl) or (e == 'h_mul_unit' and m == 'std::int16_t')
            if e == 'h_mul_mono' and fl:
                # float multiply monotone (successor form, exponents concrete, b on a 2^-8 mantissa grid): the solver decides only the strata
                # whose product underflows or where b == 1; normal-range strata had no verdict in 240 s -> outside the claim, two attempts kept
                for (ea, eb) in [(126, 127), (100, 1), (126, 126), (100, 126)]:
                    qs.append(Q('%s/%s/ea%d_eb%d' % (nm, e[2:], ea, eb), 'C07/mul.cpp', e, defs=d, params=[3, ea, eb], unwind=4, tier='thorough', timeout=300, note='attempt; normal-range strata are expected to be inconclusive'))
                continue
            if hard:
                # 16-bit multiply against the wide reference: no verdict for all 2^32 pairs within the cap; stratified: the upper bytes
                # of a and b are concrete per query (quick: boundary + seeded strata, thorough: a's upper byte swept, b free)
                sq = list(dict.fromkeys([0x00, 0xFF, 0x80, ((seed + 1) * 40503 >> 3) & 0xFF]))
                for sa in sq:
                    for sb in sq:
                        qs.append(Q('%s/%s/a%02x_b%02x' % (nm, e[2:], sa, sb), 'C07/mul.cpp', e, defs=d, params=[3, sa, sb], unwind=4, tier=t, timeout=240, note='stratified: upper bytes of a and b concrete'))
                for sa in range(0, 256, 5):
                    qs.append(Q('%s/%s/a%02x' % (nm, e[2:], sa), 'C07/mul.cpp', e, defs=d, params=[1, sa, 0], unwind=4, tier='thorough', timeout=900, solvers=['kissat'], note='stratified: upper byte of a concrete, b free; may be inconclusive'))
            else:
                qs.append(Q('%s/%s' % (nm, e[2:]), 'C07/mul.cpp', e, defs=d, params=[0, 0, 0], unwind=4, tier=('thorough' if (nb == 16 and pk and e == 'h_mul_mono') else t), timeout=240))
    return qs
