BOUNDS = 'all pairs (a,b) of every 8-bit, packed (1..16 bit) and 16-bit channel are one symbolic query per law (2^32 pairs for 16-bit); 16-bit monotonicity stratified (upper byte of both first operands concrete); float32 operands in [0,1]; all x for invert'
OUTSIDE = '16-bit multiply monotonicity over the full pair space (no verdict within cap: stratified instead); 32-bit integer channel_multiply (generic double path) interior laws'
ASSUMPTIONS = ['float channels are assumed to lie in [0,1]', 'packed channel values are assumed to be <= their maximum']
def queries(tier, seed):
    qs = []
    ms = [('std::uint8_t', 0, 0, 8), ('std::int8_t', 0, 0, 8), ('std::uint16_t', 0, 0, 16), ('std::int16_t', 0, 0, 16), ('gil::float32_t', 1, 0, 24)]
    for n in ([1, 2, 5, 6, 7, 8, 10, 16] if tier == 'quick' else range(1, 17)): ms.append(('gil::packed_channel_value<%d>' % n, 0, 1, n))
    quick = {'std::uint8_t', 'std::int8_t', 'std::uint16_t', 'std::int16_t', 'gil::float32_t', 'gil::packed_channel_value<5>', 'gil::packed_channel_value<10>', 'gil::packed_channel_value<1>'}
    for (m, fl, pk, nb) in ms:
        t = 'quick' if m in quick else 'thorough'
        nm = m.replace('std::', '').replace('gil::', '').replace('packed_channel_value<', 'p').replace('>', '').replace('_t', '')
        d = dict(CH_T=m, IS_FLOAT=fl, IS_PACKED=pk, NBITS=nb)
        for e in ('h_mul_unit', 'h_mul_comm', 'h_mul_mono', 'h_mul_ident', 'h_mul_range', 'h_inv'):
            if e == 'h_mul_mono' and nb == 16 and not pk and not fl:
                strata = [0x00, 0xFF, 0x80, ((seed + 1) * 40503 >> 3) & 0xFF] if tier == 'quick' else list(range(256))
                for st in dict.fromkeys(strata):
                    qs.append(Q('%s/%s/hi%02x' % (nm, e[2:], st), 'C07/mul.cpp', e, defs=d, params=[1, st], unwind=4, tier=t if st in strata[:4] else 'thorough', timeout=240, note='stratified: upper byte concrete'))
            else:
                qs.append(Q('%s/%s' % (nm, e[2:]), 'C07/mul.cpp', e, defs=d, params=[0, 0], unwind=4, tier=t, timeout=240))
    return qs
