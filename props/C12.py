BOUNDS = ('formats BMP (rgb8, rgba8, bgr8), binary PNM (gray8, rgb8, bgr8; bit-aligned gray1 for widths 1..17), TARGA (rgb8, rgba8, bgr8, bgra8); widths 1..5 (every BMP row-padding residue), heights 1..2 concrete per query; '
          'view organisations interleaved, planar, sub-view, x-stepped, y-flipped; FILE*, file name and std::ostream (read back through std::istream; stream model rt/rt_ios.c); every pixel symbolic, the compared pixel position symbolic')
OUTSIDE = ('PNG, TIFF, JPEG (libpng/libtiff/libjpeg: not encodable); w > 5 (8 for thorough), h > 2')
ASSUMPTIONS = ['the FILE* model (rt/rt_file.c): what fwrite stores is what fread returns', 'the stream model (rt/rt_ios.c): what ostream::write / operator<< store is what istream::readsome/get return', 'read_image of the same pixel type is the inverse under test (its own safety is C11)']
def queries(tier, seed):
    qs = []
    fmts = [('bmp', 1, ['gil::rgb8_pixel_t', 'gil::rgba8_pixel_t', 'gil::bgr8_pixel_t']), ('pnm', 2, ['gil::gray8_pixel_t', 'gil::rgb8_pixel_t', 'gil::bgr8_pixel_t']), ('targa', 3, ['gil::rgb8_pixel_t', 'gil::rgba8_pixel_t', 'gil::bgr8_pixel_t', 'gil::bgra8_pixel_t'])]
    orgs = {1: 'interleaved', 2: 'planar', 3: 'subview', 4: 'stepped', 5: 'flipped'}
    for fn, fi, pixs in fmts:
        for pix in pixs:
            for org, on in orgs.items():
                if org == 2 and 'gray' in pix: continue
                for dev in (1, 2, 3):
                    for w in range(1, 9):
                        for h in (1, 2):
                            quick = w <= 5 and ((org == 1 and dev == 1 and (h == 2 or w in (1, 4))) or (w == 3 and h == 2 and (dev == 1 or org == 1)))
                            if 'bgr' in pix: quick = (w == 3 and h == 2 and dev == 1 and org in (1, 3))   # channel-permuting layouts
                            if dev == 3: quick = (w == 3 and h == 2 and org in (1, 3) and 'bgr' not in pix) or (org == 1 and h == 1 and w in (1, 2, 4) and 'rgb8' in pix)
                            bytes_ = 160 + w * h * 4 + h * 4
                            qs.append(Q('%s/%s/%s/%s/%dx%d' % (fn, pix.split('::')[1].replace('_pixel_t', ''), on, {1: 'file', 2: 'name', 3: 'stream'}[dev], w, h), 'C12/rt.cpp', 'h_rt',
                                        defs=dict(FORMAT=fi, PIX=pix, ORG=org, DEV=dev), params=[w, h], rt=['file', 'string'] + (['ios'] if dev == 3 else []), unwind=max(16, 4 * w + 6), rt_unwind=bytes_, mem_unwind=400,
                                        cdefs=dict(VP_FILE_MAX=bytes_), tier='quick' if quick else 'thorough', timeout=300))
    # bit-aligned gray1 through PNM (P4): every width residue mod 8 (rows are packed 8 pixels to a byte, leftmost pixel in the most significant bit)
    for dev in (1, 3):
        for w in range(1, 18):
            for h in (1, 2):
                quick = (dev == 1 and h == 2 and w in (1, 3, 8, 9)) or (dev == 3 and (w, h) == (9, 2))
                if w > 10 and h == 1: continue
                bytes_ = 40 + ((w + 7) // 8) * h
                qs.append(Q('pnm/gray1/bitaligned/%s/%dx%d' % ({1: 'file', 3: 'stream'}[dev], w, h), 'C12/rt.cpp', 'h_rt', defs=dict(FORMAT=2, PIX='gil::gray8_pixel_t', ORG=6, DEV=dev), params=[w, h],
                            rt=['file', 'string'] + (['ios'] if dev == 3 else []), unwind=max(16, 2 * w + 6), unwindset=[(r'mirror_bits|negate_bits|write_data|read_bin_data|reader.*apply|writer.*apply', 300)], rt_unwind=bytes_, mem_unwind=400,
                            cdefs=dict(VP_FILE_MAX=bytes_), tier='quick' if quick else 'thorough', timeout=300))
    return qs
