BOUNDS = 'every value of every channel model <= 16 bits and every packed width is one symbolic query; 32-bit integer channels: end points, range and identity over all 2^32 values, monotonicity over all 2^32 values in successor form f(x) <= f(x+1) (equivalent by a chain argument), linearity and round trip stratified (upper 16 bits concrete from a boundary + seeded set, lower 16 bits symbolic; the unstratified query had no verdict in 900 s); float32 in [0,1]'
OUTSIDE = 'linearity / round-trip laws for 32-bit channels over the full value space; NaN / out-of-range floats; user-defined channel models'
ASSUMPTIONS = ['float channels are assumed to lie in [0,1]', 'packed channel values are assumed to be <= their maximum']
INT = {'uint8_t': 8, 'int8_t': 8, 'uint16_t': 16, 'int16_t': 16, 'uint32_t': 32, 'int32_t': 32}
def packed(n): return 'gil::packed_channel_value<%d>' % n
def models(tier):
    ms = [('std::' + k, v, True) for k, v in INT.items()] + [('gil::float32_t', 24, False)]
    for n in ([1, 2, 3, 5, 6, 7, 8, 10, 12, 16] if tier == 'quick' else range(1, 17)):
        ms.append((packed(n), n, True))
    return ms
QUICK_MODELS = {'std::uint8_t', 'std::int8_t', 'std::uint16_t', 'std::int16_t', 'std::uint32_t', 'gil::float32_t', packed(1), packed(5), packed(6), packed(10)}
def short(m): return m.replace('std::', '').replace('gil::', '').replace('packed_channel_value<', 'p').replace('>', '').replace('_t', '')
def queries(tier, seed):
    qs = _queries(tier, seed)
    for q in qs: q.nsw = True   # signed overflow in the arithmetic kernels (nsw operations of the IR) is a failed obligation (ub.signed_overflow)
    return qs
def _queries(tier, seed):
    qs = []
    ms = models(tier)
    strata_q = list(dict.fromkeys([0x0000, 0xFFFF, 0x8000, ((seed + 1) * 2654435761 >> 7) & 0xFFFF]))
    strata_t = list(dict.fromkeys(strata_q + [0x0001, 0x7FFF, 0xFFFE] + [((seed + k + 1) * 2654435761 >> 5) & 0xFFFF for k in range(8)]))
    for (s, sb, si) in ms:
        for (d, db, di) in ms:
            t = 'quick' if (s in QUICK_MODELS and d in QUICK_MODELS) else 'thorough'
            # packed channels that fill their storage type completely (8 and 16 bits): against the 8/16-bit built-in channels and one packed width
            full = (packed(8), packed(16)); partners = ('std::uint8_t', 'std::uint16_t', packed(5), packed(8), packed(16))
            if (s in full and d in partners) or (d in full and s in partners): t = 'quick'
            same = 1 if s == d else 0
            rt = 1 if ((si and di and db >= sb) or (si and not di and sb <= 16)) else 0
            # signed<->unsigned of the same width have the same number of levels
            defs = dict(SRC_T=s, DST_T=d, SRC_INT=int(si), DST_INT=int(di), SAME=same, ROUNDTRIP=rt)
            name = '%s_to_%s' % (short(s), short(d))
            wide = (si and sb == 32)
            ents = ['h_ends', 'h_range', 'h_mono'] + (['h_lin'] if (si or di) else []) + (['h_round'] if rt and (si) else []) + (['h_ident'] if same else [])
            for e in ents:
                if wide and e in ('h_lin', 'h_round'):
                    for st in (strata_t if tier == 'thorough' else strata_q):
                        tt = t if st in strata_q else 'thorough'
                        qs.append(Q('%s/%s/hi%04x' % (name, e[2:], st), 'C06/conv.cpp', e, defs=defs, params=[1, st], unwind=4, tier=tt, timeout=180,
                                    solvers=['minisat:20', 'kissat'], note='stratified: upper 16 bits concrete'))
                else:
                    qs.append(Q('%s/%s' % (name, e[2:]), 'C06/conv.cpp', e, defs=defs, params=[0, 0], unwind=4, tier=t, timeout=180, solvers=['minisat:20', 'kissat']))
    return qs
