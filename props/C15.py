BOUNDS = ('1-D: correlate_rows/cols, convolve_rows/cols and their _fixed variants (8 functions) x the 5 boundary options; image size, kernel size, centre concrete per query: '
          'length along the filtered axis 0..4 (thorough 0..6), other dimension 0..2, kernel size 1..3 (thorough 1..5; fixed kernels 1,3,5), every centre position; '
          'every source pixel (8-bit gray; also rgb8 per channel, 16-bit gray) and every declared padding pixel symbolic, taps symbolic integers in [-4,4], int32 accumulator / destination pixels '
          '(exact sums), destination pre-filled with a symbolic sentinel; EVERY output pixel of the image is compared with the textbook sum in one query (concrete loop; measured 3-40 s with kissat; '
          'the probe shape additionally one output pixel per query).  float32 accumulators with integer-valued taps: kernel size 1, and sums with at most two non-zero taps.  '
          'convolve == correlate with the harness-reversed kernel and cols == rows on a materialised transposed copy: every output pixel.  '
          'convolve_2d (gray8, thorough rgb8 -> float32 destination, float taps integer-valued in [-4,4], w,h <= 3): kernel size 1 and 1x1 / empty images with every tap symbolic; size 2 and 3 with impulse kernels '
          '(one symbolic tap at every tap position, the others 0; every output pixel) and two-tap kernels (one output pixel per query) against the exact integer sum; '
          'size 3 with every tap symbolic against the float32 sum in the same accumulation order (thorough).  '
          'extend_row/col/boundary: w,h in 1..3 (extend_zero also empty sources), extend count 1..2, extend_zero / extend_constant / extend_padded, gray8 / rgb8 / gray16, every result pixel.  '
          'All sources / destinations are exact-size heap objects (extend_padded: plus exactly the declared padding); an empty source is the one-past-the-end pointer of a minimal object.')
OUTSIDE = ('sizes above the bounds; kernel taps outside [-4,4] and non-integer float taps (rounding-error tolerances); float accumulation of three or more non-zero terms against the exact integer sum '
           '(1-D float accumulators and convolve_2d with a full 2x2 / 3x3 kernel: no verdict in 300 s on kissat / cadical, so linearity in the taps is checked tap by tap and pairwise only); '
           'accumulator overflow / saturation for narrow accumulator types; destination pixel types narrower than the accumulator (the implicit narrowing conversion); '
           'kernel_2d\'s iterator constructor (derives the size with a libm sqrt call: the harness uses kernel_2d(size, cy, cx) + element copy); extend_constant on an empty image (no nearest pixel exists); '
           'output_ignore / output_zero as arguments of extend_* (rejected by BOOST_ASSERT only); overlapping source and destination; convolve_1d (in-place second pass); debug builds '
           '(harnesses are compiled with NDEBUG: rotated90cw_view of an empty view, used by extend_col, trips BOOST_ASSERT in xy_at)')
ASSUMPTIONS = ['kernel taps are integers in [-4,4]', 'extend_padded: the caller supplies exactly left_size()/right_size() (extend_*: extend_count) valid pixels around the source view',
               'source and destination views do not overlap', 'kernel_2d layout is at(x,y) = begin()[y*size+x]',
               'a padded image without pixels only has to be empty (gil::image(w,0) reports 0x0); a padded image with pixels must have the exact dimensions']
OPTS = dict(ignore=0, zero=1, padded=2, ext_zero=3, constant=4)
PIX = dict(g8=('gil::gray8_pixel_t', 'gil::gray32s_pixel_t', 'int'), rgb8=('gil::rgb8_pixel_t', 'gil::rgb32s_pixel_t', 'int'), g16=('gil::gray16_pixel_t', 'gil::gray32s_pixel_t', 'int'),
           g8f=('gil::gray8_pixel_t', 'gil::gray32f_pixel_t', 'float'))
KS = ['kissat:150', 'cadical']
FNS = [(a, c, f) for a in (0, 1) for c in (0, 1) for f in (0, 1)]     # (axis, convolve, fixed)
def corr(ent, fn, pix, n, m, K, c, opt, tier, at=None, to=300, mask=-1):
    """n = length along the filtered axis, m = the other dimension"""
    axis, conv, fixed = fn
    w, h = (n, m) if axis == 0 else (m, n)
    sp, ap, kt = PIX[pix]
    defs = dict(C15_AXIS=axis, C15_CONV=conv, C15_KFIX=(K if fixed else 0), C15_SRC_PIX=sp, C15_ACC_PIX=ap, C15_KER_T=kt)
    f = '%s_%s%s' % ('convolve' if conv else 'correlate', 'cols' if axis else 'rows', '_fixed' if fixed else '')
    ox, oy = at if at else (-1, -1)
    name = '%s/%s/%s/%s/%dx%d_k%dc%d/%s%s' % (ent, f, pix, opt, w, h, K, c, 'all' if ox < 0 else 'at_%d_%d' % (ox, oy), '' if mask < 0 else '_taps_' + '_'.join(str(k) for k in range(K) if (mask >> k) & 1))
    # loops: pixels of a row + kernel overhang (n + K - 1), kernel (K), harness tap arrays (7), harness pixel loops (counted over the whole nest: w*h*channels)
    return Q(name, 'C15/corr.cpp', 'h_' + ent, defs=defs, params=[w, h, K, c, OPTS[opt], ox, oy, mask], unwind=max(n + K + 1, 9, w * h * (3 if pix == 'rgb8' else 1) + 3), rt_unwind=20, tier=tier, timeout=to, solvers=KS)
def conv2d(pix, kt, w, h, K, cx, cy, tier, at=None, mask=-1, mode=0, to=300):
    sp, dp = dict(g8=('gil::gray8_pixel_t', 'gil::gray32f_pixel_t'), rgb8=('gil::rgb8_pixel_t', 'gil::rgb32f_pixel_t'))[pix]
    ox, oy = at if at else (-1, -1)
    kind = 'full' if mask < 0 else 'impulse_' + '_'.join(str(k) for k in range(K * K) if (mask >> k) & 1)
    name = 'conv2d/%s_%s/%s%s/%dx%d_k%dc%d%d/%s' % (pix, kt, kind, '' if mode == 0 else '_floatref', w, h, K, cx, cy, 'all' if ox < 0 else 'at_%d_%d' % (ox, oy))
    # convolve_2d_impl's innermost loop: the checker counts its iterations over the whole call
    return Q(name, 'C15/conv2d.cpp', 'h_conv2d', defs=dict(C15_SRC_PIX=sp, C15_DST_PIX=dp, C15_KER_T=kt), params=[w, h, K, cx, cy, ox, oy, mask, mode],
             unwind=max(w * h * K * K * (3 if pix == 'rgb8' else 1) + 3, 27), rt_unwind=40, tier=tier, timeout=to, solvers=KS)
def extend(pix, fn, w, h, n, opt, tier, to=300, note=None):
    sp = dict(g8='gil::gray8_pixel_t', rgb8='gil::rgb8_pixel_t', g16='gil::gray16_pixel_t')[pix]
    name = 'extend/%s/%s/%s/%dx%d_n%d' % (('row', 'col', 'boundary')[fn], pix, opt, w, h, n)
    return Q(name, 'C15/extend.cpp', 'h_extend', defs=dict(C15_SRC_PIX=sp), params=[w, h, n, OPTS[opt], fn], unwind=max((w + 2 * n) * (h + 2 * n) * (3 if pix == 'rgb8' else 1) + 3, 8), rt_unwind=40, tier=tier, timeout=to, solvers=KS, note=note)
def centres(K): return list(range(K))
def queries(tier, seed):
    qs = []; Q_ = 'quick'; T_ = 'thorough'
    opts = list(OPTS)
    # ---- (A) main shape: axis length 4, other dimension 2, kernel size 3, every function x option, centre rotating (all three centres per function over the options)
    for fi, fn in enumerate(FNS):
        for oi, opt in enumerate(opts):
            qs.append(corr('sum', fn, 'g8', 4, 2, 3, (fi + oi) % 3, opt, Q_))
    # ---- (B) image narrower than the kernel
    for fi, fn in enumerate([(0, 0, 0), (1, 1, 1), (1, 0, 0), (0, 1, 1)]):
        for oi, opt in enumerate(opts):
            qs.append(corr('sum', fn, 'g8', 1 + (fi + oi) % 2, 2, 3, (fi + 2 * oi) % 3, opt, Q_))
    # ---- (C) empty images (either dimension zero)
    for oi, opt in enumerate(opts):
        qs.append(corr('sum', FNS[oi % 8], 'g8', 0, 2, 3, 1, opt, Q_))
        qs.append(corr('sum', FNS[(oi + 3) % 8], 'g8', 3, 0, 3, oi % 3, opt, Q_))
    # ---- (D) even kernel size (dynamic kernels only: fixed kernels must be odd) and the size-1 shortcut
    DYN = [f for f in FNS if not f[2]]
    for oi, opt in enumerate(opts):
        for c in (0, 1):
            qs.append(corr('sum', DYN[(oi + 2 * c) % 4], 'g8', 3, 1, 2, c, opt, Q_))
        qs.append(corr('sum', FNS[(oi * 3 + 1) % 8], 'g8', 3, 2, 1, 0, opt, Q_))
    # ---- (E) one output pixel per query (border and interior) for the probe's shape
    for opt in opts:
        for x in (0, 3):
            qs.append(corr('sum', (0, 0, 0), 'g8', 4, 1, 3, 1, opt, Q_, at=(x, 0)))
    # ---- (F) equivalences
    for oi, opt in enumerate(opts):
        qs.append(corr('conv_is_corr_reversed', (0, 1, 0), 'g8', 4, 1, 3, oi % 3, opt, Q_))
        qs.append(corr('conv_is_corr_reversed', (1, 1, 1), 'g8', 2, 3 - oi % 2, 3, (oi + 1) % 3, opt, Q_))
        qs.append(corr('cols_is_rows_transposed', (1, 0, 0), 'g8', 3, 2, 3, (oi + 2) % 3, opt, Q_))
        qs.append(corr('cols_is_rows_transposed', (1, 1, 1), 'g8', 2 + oi % 2, 2, 3, oi % 3, opt, Q_))
    # ---- (G) other pixel types: three channels, 16-bit source, float accumulator
    for oi, opt in enumerate(opts):
        qs.append(corr('sum', FNS[(2 * oi + 1) % 8], 'rgb8', 3, 1, 3, oi % 3, opt, Q_ if oi in (2, 4) else T_))
        qs.append(corr('sum', FNS[(2 * oi) % 8], 'g16', 3, 2, 3, (oi + 1) % 3, opt, Q_ if oi in (1, 3) else T_))
        # float32 accumulator: exact for integer taps; at most two non-zero terms per sum (see the harness header)
        qs.append(corr('sum', FNS[(3 * oi + 2) % 8], 'g8f', 3, 1, 1, 0, opt, Q_))
        qs.append(corr('sum', FNS[(3 * oi + 1) % 8], 'g8f', 3, 1, 3, (oi + 2) % 3, opt, Q_ if oi in (0, 3) else T_, mask=1 << (oi % 3)))
        qs.append(corr('sum', DYN[oi % 4], 'g8f', 2, 1, 2, oi % 2, opt, T_, to=900, at=(0, 0)))
        qs.append(corr('sum', FNS[(3 * oi) % 8], 'g8f', 3, 1, 3, oi % 3, opt, T_, to=900, mask=5 if oi % 2 else 6, at=((1, 0) if not FNS[(3 * oi) % 8][0] else (0, 1))))
    # ---- (H) thorough: every function x option x kernel size 1..5 x every centre; axis length rotating over 1,2,3,5,6 (narrower / equal / wider than the kernel)
    NS = (1, 2, 3, 5, 6)
    for fi, fn in enumerate(FNS):
        for oi, opt in enumerate(opts):
            for K in (1, 2, 3, 4, 5):
                if fn[2] and K % 2 == 0: continue
                for c in centres(K):
                    r = fi + oi + K + c
                    ns = [NS[r % 5], NS[(r + 2) % 5]] if K <= 3 else [NS[r % 5]]
                    for n in ns:
                        qs.append(corr('sum', fn, 'g8', n, 1 if (opt in ('constant', 'padded') and n * K >= 15) else 1 + (n + K + c) % 2, K, c, opt, T_, to=600))
    for fn in FNS:
        for opt in opts:
            qs.append(corr('conv_is_corr_reversed', (fn[0], 1, fn[2]), 'g8', 5, 1, 5 if fn[2] else 4, 1, opt, T_, to=600))
            if fn[0] == 1: qs.append(corr('cols_is_rows_transposed', fn, 'g8', 5, 2, 5 if fn[2] else 4, 3, opt, T_, to=600))
            qs.append(corr('sum', fn, 'g8f', 4, 1, 5 if fn[2] else 4, 2, opt, T_, to=600, mask=1 << (2 if fn[1] else 1)))
            qs.append(corr('sum', fn, 'rgb8', 4, 1 if opt == 'constant' else 2, 3, 1, opt, T_, to=600))
    # ---- convolve_2d (float accumulation: see the harness header for why size-3 kernels are checked tap by tap)
    qs.append(conv2d('g8', 'float', 3, 3, 1, 0, 0, Q_))
    qs.append(conv2d('g8', 'float', 1, 1, 3, 1, 1, Q_))
    qs.append(conv2d('g8', 'float', 0, 2, 3, 1, 1, Q_)); qs.append(conv2d('g8', 'float', 2, 0, 3, 1, 1, Q_))
    # size 2: two symbolic taps (the other two are 0), one output pixel per query (sums of more than two non-zero float terms: no verdict in 300 s)
    PAIRS = [3, 5, 6, 9, 10, 12]
    for i, (cx, cy) in enumerate([(0, 0), (1, 0), (0, 1), (1, 1)]):
        for j, m in enumerate(PAIRS):
            at = (1 - cx + (j % 2), 1 - cy)          # an output pixel all four taps of which lie inside the 3x2 image
            qs.append(conv2d('g8', 'int', 3, 2, 2, cx, cy, Q_ if (i + j) % 6 == 0 else T_, at=at, mask=m))
            if (i + j) % 3 == 0: qs.append(conv2d('g8', 'float', 3, 2, 2, cx, cy, T_, at=at, mask=m, to=900))
        for k in range(4): qs.append(conv2d('g8', 'float', 3, 2, 2, cx, cy, Q_ if k == i else T_, mask=1 << k))
    qs.append(conv2d('g8', 'int', 3, 3, 3, 1, 1, Q_, at=(0, 0), mask=17)); qs.append(conv2d('g8', 'float', 3, 3, 3, 1, 1, T_, at=(0, 0), mask=10, to=900))
    for cx in range(3):                                                   # size 3: one symbolic tap per query, every output pixel
        for cy in range(3):
            for k in range(9):
                qk = (cx, cy) == (1, 1) or ((cx, cy) in ((0, 2), (2, 0)) and k in (0, 4, 8))
                qs.append(conv2d('g8', 'float', 3, 3 if (cx + cy) % 2 == 0 else 2, 3, cx, cy, Q_ if qk else T_, mask=1 << k))
    for k in (0, 5): qs.append(conv2d('rgb8', 'float', 2, 2, 3, 1, 1, T_, mask=1 << k))
    qs.append(conv2d('g8', 'int', 3, 3, 3, 1, 1, T_, mask=1 << 4))
    # size 3, every tap symbolic, against the float32 sum in convolve_2d's accumulation order (193 s when measured)
    for at in ((0, 0), (1, 1)): qs.append(conv2d('g8', 'float', 3, 3, 3, 1, 1, T_, at=at, mode=2, to=900))
    # ---- extend_row / extend_col / extend_boundary
    for fn in (0, 1, 2):
        for oi, opt in enumerate(('ext_zero', 'constant', 'padded')):
            qs.append(extend('g8', fn, 3, 2, 1, opt, Q_))
            qs.append(extend('g8', fn, 1 + (fn + oi) % 2, 1 + (fn + oi + 1) % 2, 2, opt, Q_))
            qs.append(extend('rgb8', fn, 2, 3, 1, opt, Q_ if (fn + oi) % 3 == 0 else T_))
            qs.append(extend('g16', fn, 3, 3, 2, opt, T_))
            qs.append(extend('g8', fn, 1, 1, 1, opt, T_))
        qs.append(extend('g8', fn, 0, 2, 1, 'ext_zero', Q_ if fn != 1 else T_))
        # extend_boundary of a source without rows: the intermediate extend_col image (w+2n) x 0 is reported as 0x0 by gil::image, the result is 0x0 instead of (w+2n) x 2n zeros
        FND = 'fails on the unchanged tree: gil::image(w,0) drops the width (see report / known_findings)' if fn == 2 else None
        qs.append(extend('g8', fn, 2, 0, 1, 'ext_zero', Q_ if fn == 1 else T_, note=FND))
        qs.append(extend('g8', fn, 0, 0, 2, 'ext_zero', T_, note=FND))
    names = set(); out = []
    for q in qs:
        if q.name in names: continue
        names.add(q.name); out.append(q)
    return out
