BOUNDS = ('view dimensions concrete per query (quick 3x2, 1x1, 0x2; thorough up to 4x3), row padding of source and destination buffers concrete per query (0..3 bytes), '
          'destination sub-view offset inside its (w+2)x(h+1) buffer concrete per query (symbolic offsets make pointer-compare loops unbounded for the model checker), source contents / destination background / fill values symbolic (equal_pixels: destination = source except one pixel at a concrete position changed by a symbolic amount), probed pixel and probed background byte symbolic; '
          'layout pairs from {interleaved, planar, x-stepped (flipped), transposed, y-flipped, packed 565, bit-aligned 232/1-bit/2-bit} and all ten algorithms')
OUTSIDE = 'sizes above 4x3; symbolic row padding (36 s per query: concrete grid instead); copy between different bit-aligned types; user-defined pixel types'
ASSUMPTIONS = ['navigation view(x,y) is trusted from C02/C03 for the per-pixel oracle', 'buffers are exact-size heap objects: any access outside them is a failed proof obligation']
ALG = dict(fill_other_order=11, copy=1, fill=2, equal=3, foreach=4, generate=5, transform=6, transform2=7, convert=8, foreach_pos=9, transform_pos=10)
RGB = [('src_rgb8i', 'xf_id'), ('src_rgb8i', 'xf_fliplr'), ('src_rgb8i', 'xf_transposed'), ('src_rgb8p', 'xf_id'), ('src_rgb8p', 'xf_flipud'), ('src_rgb8p', 'xf_rot90cw')]
SAME = [('src_rgb16p', 'xf_id'), ('src_rgb565', 'xf_id'), ('src_bgr232', 'xf_id'), ('src_gray1', 'xf_id'), ('src_gray2', 'xf_id'), ('src_rgb16i', 'xf_id'), ('src_gray8step', 'xf_id'), ('src_gray1', 'xf_fliplr'), ('src_bgr232', 'xf_transposed')]
def queries(tier, seed):
    qs = []
    def add(alg, s, d, dims, pads, t, offs=None, diff=None):
        if alg == 'equal' and diff is None:
            w_, h_ = dims
            cands = [(-1, -1), (0, 0), (w_ - 1, h_ - 1), (w_ // 2, h_ // 2)] if (t == 'quick' or tier == 'quick' or dims != (3, 2)) else [(-1, -1)] + [(x, y) for y in range(h_) for x in range(w_)]
            for dd in dict.fromkeys(cands): add(alg, s, d, dims, pads, t, offs, dd)
            return
        if diff is None: diff = (-1, -1)
        if offs is None: offs = [(1, 1), (0, 0), (2, 0), (2, 1)][(dims[0] + pads[0] + len(alg)) % 4] if tier == 'quick' or t == 'quick' else None
        if offs is None:
            for o in ([(1, 1), (0, 0), (2, 1)] if dims == (3, 2) else [(2, 1)]): add(alg, s, d, dims, pads, t, o, diff)
            return
        (sk, sx), (dk, dx) = s, d
        w, h = dims
        name = '%s/%s.%s-%s.%s/%dx%d_p%d%d%s' % (alg, sk[4:], sx[3:], dk[4:], dx[3:], w, h, pads[0], pads[1], '_o%d%d' % offs) + ('' if alg != 'equal' else '_d%s%s' % (diff[0] if diff[0] >= 0 else 'n', diff[1] if diff[1] >= 0 else 'n'))
        bitty = any(k in (sk + dk) for k in ('bgr232', 'gray1', 'gray2', 'rgb222'))
        qs.append(Q(name, 'C04/alg.cpp', 'h_alg', defs=dict(SRC=sk, SXF=sx, DST=dk, DXF=dx, ALG=ALG[alg]), params=[w, h, pads[0], pads[1], offs[0], offs[1]] + list(diff),
                    unwind=3 * max(w, h) + 8, rt_unwind=(max(w, h) + 2) * 4 + 6, tier=t, timeout=300))
    dt = [(3, 2), (1, 1), (0, 2), (2, 3), (4, 1), (4, 3)]
    pt = [(1, 2), (0, 0), (3, 1)]
    Q_ = 'quick'; T_ = 'thorough'
    for si, s in enumerate(RGB):
        for di, d in enumerate(RGB):
            for dims in dt:
                for pads in pt:
                    # copy: every layout pair at 3x2 with padded rows; unpadded (1-D traversable source) and degenerate shapes for a subset
                    qk = (dims == (3, 2) and pads == (1, 2)) or (dims == (3, 2) and pads == (0, 0) and si == di) or (dims in ((1, 1), (0, 2)) and pads == (1, 2) and (si + di) % 3 == 0)
                    add('copy', s, d, dims, pads, Q_ if qk else T_)
                    # equal_pixels: expensive (data-dependent early exits): quick = six pairs x {no difference, last pixel differs}
                    if dims == (3, 2) and pads == (1, 2) and (si, di) in ((0, 0), (3, 3), (0, 3), (3, 0), (1, 4), (5, 2)):
                        add('equal', s, d, dims, pads, Q_, None, (-1, -1)); add('equal', s, d, dims, pads, Q_, None, (2, 1))
                        add('equal', s, d, dims, pads, T_, None, (0, 0)); add('equal', s, d, dims, pads, T_, None, (1, 1))
                    else:
                        add('equal', s, d, dims, pads, T_)
    for di, d in enumerate(RGB):
        for alg in ('fill', 'fill_other_order', 'foreach', 'generate', 'transform', 'transform2', 'foreach_pos', 'transform_pos'):
            for dims in dt:
                for pads in pt:
                    qk = pads == (1, 2) and (dims == (3, 2) or (dims == (0, 2) and di % 2 == 0))
                    add(alg, RGB[(len(alg) + di) % len(RGB)], d, dims, pads, Q_ if qk else T_)
    # colour-converting copy: rgb8 (any layout) -> gray8 / rgb16 / rgba8
    for si, s in enumerate(RGB):
        for d in [('src_gray8i', 'xf_id'), ('src_rgb16i', 'xf_id'), ('src_rgba8i', 'xf_fliplr')]:
            for dims in dt:
                add('convert', s, d, dims, (1, 2), Q_ if (dims == (1, 1) and si % 2 == 0) or (dims == (3, 2) and d[0] != 'src_gray8i' and si in (0, 3)) else T_)
    # packed / bit-aligned / 16-bit / stepped: same-type pairs (bit-aligned sub-views start at a non-zero bit offset)
    for s in SAME:
        for d in SAME:
            if s[0] != d[0]: continue
            for alg in ('copy', 'equal', 'fill', 'generate', 'transform'):
                for dims in dt:
                    for pads in [(1, 1), (0, 0)]:
                        heavy = 'bgr232' in s[0]
                        qk = dims == (3, 2) and pads == (1, 1) and s[1] == 'xf_id' and alg != 'equal' and (not heavy or alg in ('copy', 'fill')) and (d[1] == 'xf_id' or alg == 'copy')
                        if alg == 'equal':
                            add(alg, s, d, dims, pads, Q_ if (dims == (3, 2) and pads == (1, 1) and s[1] == 'xf_id' and d[1] == 'xf_id' and not heavy and 'gray2' not in s[0]) else T_, None, (2, 1))
                            if 'rgb16p' in s[0] and dims == (3, 2): add(alg, s, d, dims, (0, 0), Q_, (0, 0), (2, 1)); add(alg, s, d, dims, (0, 0), Q_, (0, 0), (2, 0))
                            add(alg, s, d, dims, pads, T_, None, (-1, -1))
                        else:
                            add(alg, s, d, dims, pads, Q_ if qk else T_)
    # image operator== / !=: same shape (one pixel may differ) and same pixel count in a different shape
    for pix, planar, pn in (('gil::rgb8_pixel_t', 0, 'rgb8i'), ('gil::rgb8_pixel_t', 1, 'rgb8p'), ('gil::gray16_pixel_t', 0, 'gray16i')):
        for (w, h) in ((3, 2), (2, 3), (1, 4), (2, 2), (0, 2)):
            for (ex, ey) in ((-1, -1), (w - 1, h - 1), (0, 0)):
                if w == 0 and ex >= 0: continue
                qk = (w, h) in ((3, 2), (1, 4)) and (ex, ey) != (0, 0) and (pn != 'gray16i' or (w, h) == (3, 2))
                qs.append(Q('image_eq/%s/%dx%d_d%s%s' % (pn, w, h, ex if ex >= 0 else 'n', ey if ey >= 0 else 'n'), 'C04/imgeq.cpp', 'h_image_eq', defs=dict(IMG_PIX=pix, IMG_PLANAR=planar),
                            params=[w, h, 0, 0, 0, 0, ex, ey], unwind=3 * max(w, h) + 8, rt_unwind=(max(w, h) + 2) * 4 + 6, tier=Q_ if qk else T_, timeout=300))
    names = set(); out = []
    for q in qs:
        if q.name in names: continue
        names.add(q.name); out.append(q)
    return out
