import struct
BOUNDS = ('rgb8 -> hsv32f / hsl32f channel ranges: all 2^24 rgb8 pixels, one symbolic query each; hsv/hsl -> rgb8 with float channels in [0,1]: '
          'hue 1 == hue 0 with saturation and value fully symbolic (hsv, one query) and stratified (hsv and hsl; one of the two concrete from a boundary + seeded set, the other symbolic); '
          'saturation exactly 0: result independent of hue and grey, hue (two copies) and value/lightness fully symbolic; '
          'ycbcr 601 / 709 (8-bit): nominal channel ranges for all 2^24 rgb8 pixels (one query); rgb8 -> ycbcr -> rgb8 within 3 levels per channel stratified by the upper nibbles of green and blue '
          '(2^16 pixels per query; 601: quick 9 nibble pairs, thorough all 256 pairs = all 2^24 pixels; 709: quick 3 pairs, thorough the 32 diagonal / anti-diagonal pairs); ycbcr601 -> rgb8 defined for all 2^24 ycbcr triples; '
          'cmyka8 -> rgba8 and cmyka8 <-> cmyka16 for all 2^40 cmyka8 pixels; gray_alpha / alpha_gray -> rgba (4 rgba layouts, 8/16 bit) and toolbox gray -> rgba for every source value; '
          'toolbox rgb_to_luminance<double> on all 2^24 integer-valued triples 0..255; '
          'thorough: hsv/hsl -> rgb8 evaluated twice through a volatile relay (defined result, in-range float->int conversions) with hue symbolic and saturation, value concrete per query')
OUTSIDE = ('xyz and lab (every conversion calls powf: libm is not modelled, a reachable call fails the query with env.unmodelled_external); '
           'rgb8 -> hsv -> rgb8 and rgb8 -> hsl -> rgb8 round trips (float division chains: no verdict within the cap even with one channel fixed); '
           'hsl hue periodicity with saturation and lightness both symbolic (no verdict in 200 s; checked with one of them concrete per query); '
           'rgb -> cmyka -> rgb round trip: the toolbox has no converter *to* cmyka (color_convert(rgb8, cmyka8) and (rgba8, cmyka8) do not compile; upstream test says "TODO: no rgba to cmyka conversion implemented"), '
           'cmyka -> rgba ignores the source alpha (result alpha = max) - not asserted either way; '
           'hsv/hsl inputs outside [0,1] or NaN; unset locals on paths the optimiser folds away (LLVM replaces an undef phi input by another incoming value; the hue-periodicity assertion still sees the wrong colour); '
           'toolbox luminance for double inputs other than integer-valued 0..255; gray_alpha -> rgb / gray (premultiplied) are not part of the property')
ASSUMPTIONS = ['hsv / hsl float channels are assumed to lie in [0,1]',
               'ycbcr round-trip tolerance is 3 levels per channel (the exhaustive native maximum for BT.601 is 3/1/3)',
               'nominal BT.601 range as implemented: luma 16..235, chroma 16..240; the 709 converter is the full-range (JPEG) variant: 0..255']
def f32(x): return struct.unpack('<I', struct.pack('<f', x))[0]
SRC = 'C18/tb.cpp'
def queries(tier, seed):
    qs = []
    def add(name, entry, params=None, defs=None, t='quick', timeout=150, solvers=None, note=None, heavy=0):
        q = Q(name, SRC, entry, defs=defs or {}, params=params or [0, 0, 0, 0], unwind=4, tier=t, timeout=timeout, solvers=solvers or ['kissat'], note=note)
        q.heavy = heavy
        if name not in [x.name for x in qs]: qs.append(q)     # a seeded stratum may coincide with a fixed one
    sv = 0.05 + ((seed * 2654435761) % 9000) / 10000.0     # seeded value in (0.05, 0.95)
    for cs in ('hsv', 'hsl'):
        add('%s/range' % cs, 'h_%s_range' % cs, timeout=300, heavy=2)
        # hsl with saturation and lightness both symbolic: no verdict in 200 s (thorough attempt removed); the stratified queries below stand in for it
        if cs == 'hsv': add('%s/hue_periodic' % cs, 'h_%s_hue_periodic' % cs, timeout=200, heavy=2)
        # stratified: third channel concrete, saturation symbolic / saturation concrete, third channel symbolic
        for x in (0.25, 0.75, sv): add('%s/hue_periodic/x%.4f' % (cs, x), 'h_%s_hue_periodic' % cs, params=[0, 0, f32(x), 2], timeout=200, heavy=1, note='stratified: value/lightness concrete')
        for s in (1.0, sv): add('%s/hue_periodic/s%.4f' % (cs, s), 'h_%s_hue_periodic' % cs, params=[0, f32(s), 0, 1], timeout=200 if s == 1.0 else 600, heavy=1,
                                t='quick' if (s == 1.0 or cs == 'hsv') else 'thorough', note='stratified: saturation concrete')   # hsl with a generic saturation: 180 s
        for x in (0.5, 1.0, 0.0): add('%s/hue_periodic/x%.4f' % (cs, x), 'h_%s_hue_periodic' % cs, params=[0, 0, f32(x), 2], t='thorough', timeout=300, note='stratified: value/lightness concrete')
        for s in (0.5, 0.001): add('%s/hue_periodic/s%.4f' % (cs, s), 'h_%s_hue_periodic' % cs, params=[0, f32(s), 0, 1], t='thorough', timeout=300, note='stratified: saturation concrete')
        add('%s/gray_ignores_hue' % cs, 'h_%s_gray_ignores_hue' % cs, timeout=200, heavy=1)
        for (s, x) in ((1.0, 0.75), (sv, 1.0), (0.5, sv)):
            add('%s/back_defined/s%.4f_x%.4f' % (cs, s, x), 'h_%s_back_defined' % cs, params=[0, f32(s), f32(x), 3], t='thorough', timeout=600, note='hue symbolic, saturation and value/lightness concrete')
    # ycbcr round trip (double forward path, integer / double backward path): all 2^24 pixels in one query had no verdict in 200 s, with the upper
    # nibble of one channel concrete 82 s, of two channels 8 s.  Stratified: upper nibbles of green and blue concrete per query, red and the lower
    # nibbles symbolic (2^16 pixels per query); thorough sweeps all 256 nibble pairs = all 2^24 pixels, quick a boundary + seeded subset.
    sn = ((seed + 1) * 40503 >> 3) & 15
    nib = list(dict.fromkeys([0, 15, sn]))
    for yc in ('ycbcr601', 'ycbcr709'):
        add('%s/fwd' % yc, 'h_%s_fwd' % yc)
        for gn in range(16):
            for bn in range(16):
                if yc == 'ycbcr601': quick = gn in nib and bn in nib
                else:
                    # the 709 -> rgb converter is broken on the current tree (every stratum fails): diagonal + anti-diagonal strata only until it is repaired
                    quick = gn == bn and gn in nib
                    if gn != bn and gn + bn != 15: continue
                for k, c in enumerate(('red', 'green', 'blue')):
                    add('%s/round_%s/g%x_b%x' % (yc, c, gn, bn), 'h_%s_round' % yc, params=[k + 1, 3, 6, (gn << 4) | (bn << 8)], timeout=200, t='quick' if quick else 'thorough',
                        note='stratified: upper nibbles of green and blue concrete')
    add('ycbcr601/back_defined', 'h_ycbcr601_back_defined', timeout=200)
    add('cmyka/to_rgba', 'h_cmyka_to_rgba')
    add('cmyka/same', 'h_cmyka_same')
    ga = [('gray_alpha8', 'rgba8', 'quick'), ('gray_alpha8', 'bgra8', 'quick'), ('gray_alpha8', 'argb8', 'quick'), ('gray_alpha8', 'abgr8', 'quick'), ('alpha_gray8', 'rgba8', 'quick'),
          ('alpha_gray8', 'abgr8', 'quick'), ('gray_alpha16', 'rgba16', 'quick'), ('gray_alpha8', 'rgba16', 'quick'), ('gray_alpha16', 'rgba8', 'quick'), ('alpha_gray16', 'argb16', 'thorough'), ('alpha_gray16', 'bgra8', 'thorough')]
    for (g, r, t) in ga:
        d = dict(GA_P='gil::%s_pixel_t' % g, RGBA_P='gil::%s_pixel_t' % r)
        add('%s_to_%s/ga_to_rgba' % (g, r), 'h_ga_to_rgba', defs=d, t=t)
        if g.startswith('gray_alpha'): add('gray%s_to_%s/gray_to_rgba' % (g[10:], r), 'h_gray_to_rgba', defs=d, t=t)
    add('luminance/double', 'h_luminance')
    qs.sort(key=lambda q: -q.heavy)
    return qs
