BOUNDS = ('threshold_binary (both overloads) / threshold_truncate: 2x1 rgb view (three channels: channel independence), every source channel, the threshold and the '
          'maximum value symbolic over the whole type (u8, u16, s16; float: every non-NaN value), one query per (function, mode, direction, channel type), exact-size buffers.  '
          'threshold_optimal (Otsu): gray images of u8, u16, s8, s16, dimensions concrete per query from {0x0, 1x1, 2x1, 2x2, 3x2(u8)}, every pixel symbolic; all generated '
          'memory-safety / ub obligations (histogram index, divisions, source/destination accesses); on the min/max-scan branch (16-bit and signed types) the non-empty images are '
          'partitioned into three classes (every pixel <= last pixel and last pixel != type minimum | last pixel == type minimum | otherwise), constant images into two.  '
          'Morphology: gray8, dimensions concrete per query from {1x1, 3x1, 1x3, 2x2, 3x2, 3x3, 4x3}, every pixel symbolic, 3x3 structuring element with nine symbolic 0/1 entries, '
          'symmetric about its centre and containing its centre; the definition clause is split by "SE also symmetric as a matrix" (passes) / "not" (fails on the unchanged tree); '
          'monotonicity with a second symbolic image; opening/closing order and idempotence (thorough).  '
          'median_filter k=3: 1x1 image with a symbolic pixel (thorough only).')
OUTSIDE = ('median_filter on images with more than one pixel: std::nth_element (libstdc++ introselect with unguarded partition loops) on symbolic data needs 339 s of symbolic '
           'execution per call and gives no verdict within the cap for two calls, also with only one symbolic pixel; on a 1x1 image all nine window values are equal, so that '
           'query checks memory safety / absence of UB of extend_boundary + nth_element on symbolic data but cannot distinguish the median from another rank.  '
           'Otsu: "output equals threshold_binary for a single threshold" is thorough-only and had no verdict (8 GB cap reached) at 2x2; images above 3x2; the value of the chosen threshold.  '
           'threshold_adaptive (not part of the property); NaN channel values; structuring elements that are not symmetric about the centre, that do not contain the centre for the definition / monotonicity / opening-closing clauses '
           '(morph_impl always includes the pixel itself, so there erode <= src <= dilate still holds - that order law IS checked with a centre-free SE - but dilate is not the maximum over the SE neighbourhood), or larger than 3x3; '
           'more than one iteration; multi-channel images in morphology / median (per-channel dispatch through nth_channel_view is covered by threshold_optimal only)')
ASSUMPTIONS = ['"symmetric structuring element" is read as symmetric about its centre (B = -B), the usual meaning in morphology; the SE layout is the one documented by kernel_2d::at(x, y) = begin()[y*size+x]',
               'the structuring element contains its centre (needed for the property\'s own inference erode <= src <= dilate)',
               'float channels are not NaN',
               'source and destination views do not overlap']
CH = {'u8': 'std::uint8_t', 'u16': 'std::uint16_t', 's16': 'std::int16_t', 'f32': 'float'}
KS = ['kissat:60', 'cadical']   # minisat does not terminate on some of these tiny instances (1.3k variables, > 100 s)
def queries(tier, seed):
    qs = []
    T = 'C16/thr.cpp'
    for cn, ct in CH.items():
        d = dict(CHAN_T=ct)
        for di, dn in ((0, 'regular'), (1, 'inverse')):
            qs.append(Q('thr/binary/%s/%s' % (dn, cn), T, 'h_thr_binary', defs=d, params=[di, 0], unwind=8, tier='quick', timeout=120, solvers=KS))
            qs.append(Q('thr/binary_max/%s/%s' % (dn, cn), T, 'h_thr_binary_max', defs=d, params=[di, 0], unwind=8, tier='quick', timeout=120, solvers=KS))
            for mi, mn in ((0, 'threshold'), (1, 'zero')):
                qs.append(Q('thr/truncate_%s/%s/%s' % (mn, dn, cn), T, 'h_thr_truncate', defs=d, params=[di, mi], unwind=8, tier='quick', timeout=120, solvers=KS))
    O = 'C16/otsu.cpp'
    OCH = {'u8': 'std::uint8_t', 'u16': 'std::uint16_t', 's8': 'std::int8_t', 's16': 'std::int16_t'}
    CLS = {0: 'any', 1: 'constant', 2: 'pixels_le_last_pixel', 3: 'last_pixel_is_min', 6: 'some_pixel_gt_last_pixel', 4: 'constant_not_min', 5: 'constant_min'}
    def otsu(cn, w, h, cls, t, di=0, ent='safe', to=600):
        return Q('otsu/%s/%s/%dx%d/%s%s' % (ent, cn, w, h, CLS[cls], '/inverse' if di else ''), O, 'h_otsu_' + ent, defs=dict(CHAN_T=OCH[cn]), params=[w, h, cls, di],
                 unwind=260, rt_unwind=2050, tier=t, timeout=to, solvers=KS)
    # 8-bit unsigned branch (histogram indexed by the value): every image
    for (w, h, t) in ((0, 0, 'quick'), (1, 1, 'quick'), (2, 2, 'quick'), (3, 2, 'thorough'), (2, 1, 'thorough')):
        qs.append(otsu('u8', w, h, 0, t))
    qs.append(otsu('u8', 2, 2, 1, 'thorough')); qs.append(otsu('u8', 2, 2, 0, 'thorough', di=1))
    # min/max-scan branch (16-bit, signed): empty image; 2x2 split into the class that stays in range and its complement
    for cn in ('u16', 's8', 's16'):
        qs.append(otsu(cn, 0, 0, 0, 'quick'))
        qs.append(otsu(cn, 2, 2, 2, 'quick'))
        qs.append(otsu(cn, 2, 2, 3, 'quick'))
        qs.append(otsu(cn, 2, 2, 6, 'quick'))
        for (w, h) in ((1, 1), (2, 1)):
            qs.append(otsu(cn, w, h, 2, 'thorough')); qs.append(otsu(cn, w, h, 3, 'thorough'))
            if w * h > 1: qs.append(otsu(cn, w, h, 6, 'thorough'))
        qs.append(otsu(cn, 2, 2, 4, 'thorough')); qs.append(otsu(cn, 2, 2, 5, 'thorough'))
        qs.append(otsu(cn, 2, 2, 2, 'thorough', di=1))
    # the output is threshold_binary for a single threshold (needs the 256-iteration double-precision variance loop): thorough only
    for (w, h) in ((2, 1), (2, 2)):
        qs.append(otsu('u8', w, h, 0, 'thorough', ent='single', to=900))
    M = 'C16/morph.cpp'
    def mq(name, ent, w, h, cls, op, t, to=300):
        # morph_impl's innermost loop: the checker counts its iterations over the whole call -> w*h*9
        return Q(name, M, ent, params=[w, h, cls, 1, op], unwind=w * h * 9 + 3, tier=t, timeout=to, solvers=KS)
    DIMS = [(3, 3, 'quick'), (2, 2, 'quick'), (1, 1, 'thorough'), (3, 1, 'thorough'), (1, 3, 'thorough'), (3, 2, 'thorough'), (4, 3, 'thorough')]
    for (w, h, t) in DIMS:
        for op, on in ((0, 'dilate'), (1, 'erode')):
            qs.append(mq('morph/def/%s/%dx%d/matrix_symmetric_se' % (on, w, h), 'h_morph_def', w, h, 0, op, t))
            qs.append(mq('morph/def/%s/%dx%d/non_matrix_symmetric_se' % (on, w, h), 'h_morph_def', w, h, 1, op, t))
            qs.append(mq('morph/mono/%s/%dx%d' % (on, w, h), 'h_morph_mono', w, h, 2, op, t))
        qs.append(mq('morph/order/%dx%d' % (w, h), 'h_morph_order', w, h, 2, 0, t))
        # the same order law for a symmetric SE that need not contain its centre (morph_impl starts from the pixel itself, so the law still holds)
        q = mq('morph/order_centre_free/%dx%d' % (w, h), 'h_morph_order', w, h, 2, 0, t if (w, h) in ((2, 2), (3, 3)) else 'thorough'); q.params[3] = 0; q.shape = dict(q.defs, params=list(q.params)); qs.append(q)
    for (w, h, t) in ((2, 2, 'quick'), (3, 2, 'quick'), (3, 3, 'thorough'), (1, 3, 'thorough'), (4, 2, 'thorough')):
        qs.append(mq('morph/openclose/%dx%d' % (w, h), 'h_morph_openclose', w, h, 2, 0, t, to=300 if t == 'quick' else 900))
    for (w, h) in ((2, 2), (3, 2), (3, 3)):
        for op, on in ((0, 'opening'), (1, 'closing')):
            qs.append(mq('morph/idem/%s/%dx%d' % (on, w, h), 'h_morph_idem', w, h, 2, op, 'thorough', to=900))
    D = 'C16/median.cpp'
    US = [('__introselect', 10), ('__heap_select', 2)]
    # std::nth_element on symbolic data: 339 s of symbolic execution for one call, so 1x1 only (788 s in total when measured; may be inconclusive on a loaded machine);
    # 2x1 / 3x1 / 3x2, also with a single symbolic pixel among concrete ones, had no verdict in 900 s -> OUTSIDE
    qs.append(Q('median/1x1/at_0_0', D, 'h_median', params=[1, 1, 0, 0], unwind=14, unwindset=US, tier='thorough', timeout=900, solvers=KS))
    return qs
