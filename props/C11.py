BOUNDS = ('formats BMP, PNM, TARGA through FILE*, file name and std::istream (GIL istream_device over the stream model rt/rt_ios.c: twins of the FILE* queries, BMP pixel-data offset concrete there); per query the file length L and the control-flow-deciding header fields are concrete '
          '(BMP: header size {12,40,108}, bits per pixel {1,4,8,15,16,24,32,other}, compression {0,1,2,3}, width/height <= 5x2 incl. top-down, palette size, '
          'PNM: type P1..P6, the ASCII header text, ASCII sample data (concrete seeded digits), TARGA: image type, bit depth, descriptor, id length, dimensions); '
          'every other byte (offsets, masks, palette entries, run lengths, pixel data, reserved fields) is symbolic; L ranges over every header boundary and truncation point of the variant (quick: a subset)')
OUTSIDE = ('run-length-coded BMP / TARGA data with *symbolic* packet structure (no verdict within the cap; run-length decoders are covered with concrete packet structure and symbolic colour values, plus fully concrete streams); PNG, JPEG, TIFF (decoding is done by libpng/libjpeg/libtiff, external C libraries outside /repo: not encodable); std::ostream / stream states other than eof/fail, formatted extraction (PNM through a stream uses get(): modelled); '
           'images larger than 5x2; fully symbolic headers (no verdict: the parser branches on every header byte); I/O errors other than end of file; allocations above 4 KiB succeeding')
ASSUMPTIONS = ['the FILE* model (rt/rt_file.c) stands for libc: short reads at end of file, ferror() == 0', 'the std::istream model (rt/rt_ios.c) stands for libstdc++ unformatted input: get/peek/readsome/read/seekg/tellg with eofbit/failbit as in libstdc++, sentry semantics, no badbit', 'operator new refuses allocations above 4 KiB with std::bad_alloc',
               'control-flow-deciding header bytes are enumerated concretely, not symbolically']
E = dict(read_image=1, info=2, read_view=3, convert_image=4, scanline=5, convert_view=6)
def bmp_rowbytes(w, bpp): return ((w * bpp + 31) // 32) * 4
def queries(tier, seed):
    qs = []
    UNW = [10]; USET = [[]]
    def add(fmt, name, entry, dev, pix, params, L, t, unwind=10, extra=0, ent='h_read'):
        unwind = max(unwind, UNW[0])
        uset = list(USET[0]) + ([(r'scanline_reader', 2100)] if entry == 'scanline' else [])   # the bmp scanline reader builds a 256-entry bit-mirroring table in its constructor
        d = dict(FORMAT=dict(bmp=1, pnm=2, targa=3)[fmt], ENTRY=E[entry], DEV=dev)
        if pix: d['PIX'] = pix
        p = [L] + list(params)
        p += [0] * (12 - len(p)) + [3, 2]
        qs.append(Q('%s/%s/%s/%s/L%d' % (fmt, entry, 'file' if dev == 1 else 'name', name, L), 'C11/read.cpp', ent, defs=d, params=p, rt=['file'], unwind=unwind, unwindset=uset,
                    rt_unwind=max(L, 16) + 4 + extra, mem_unwind=400, cdefs=dict(VP_FILE_MAX=max(L, 8) + 8), tier=t, timeout=300))
    # ------------------------------------------------------------------ BMP: [magic_ok, hdr, bpp, comp, w, h, ncol, off]
    variants = []
    for hdr in (40, 12, 108):
        for bpp, comp, ncol in ((24, 0, 0), (32, 0, 0), (16, 0, 0), (15, 0, 0), (8, 0, 4), (4, 0, 4), (1, 0, 2), (8, 1, 4), (4, 2, 4), (16, 3, 0), (32, 3, 0), (2, 0, 0), (8, 0, 300), (24, 5, 0)):
            if hdr == 12 and (comp != 0 or bpp in (15, 16, 32, 2)): continue
            for (w, h) in ((3, 2), (1, 1), (5, 1), (3, -2)):
                variants.append((hdr, bpp, comp, ncol, w, h))
    for (hdr, bpp, comp, ncol, w, h) in variants:
        if comp in (1, 2) and not (hdr == 40 and (w, h) == (3, 2)): continue   # run-length variants: a few attempts only (no verdict within the cap)
        hh = abs(h)
        # loop bounds: 1/4-bit rows are expanded bit by bit over the padded row; RLE runs up to 255; a 300-entry palette is filled entry by entry
        UNW[0] = 40 if bpp == 1 else (70 if bpp == 4 else (40 if comp == 3 else 16))   # bitfield masks: count_ones/trailing_zeros loops run 32 times
        # an 8-bit palette is padded to 256 entries (std::vector fill): only those loops get the large bound
        USET[0] = [(r'St6vector|fill_n|uninitialized|read_palette', 310)] if (bpp == 8 or ncol == 300) else []
        if bpp == 1: USET[0] = [(r'read_palette_image', 2100)]   # 1-bit rows go through a 256-entry bit-mirroring table built by a 256 x 8 loop
        pal = (ncol if ncol < 16 else 0) * (3 if hdr == 12 else 4) if bpp <= 8 else 0
        base = 14 + hdr + (12 if comp == 3 else 0)
        full = base + pal + hh * bmp_rowbytes(w, bpp if bpp != 15 else 16)
        name = 'h%d_bpp%d_c%d_n%d_%dx%s' % (hdr, bpp, comp, ncol, w, ('m%d' % -h) if h < 0 else h)
        hval = h if h >= 0 else (1 << 32) + h
        par = [1, hdr, bpp, comp, w, hval & 0x7FFFFFFF if h >= 0 else hval - (1 << 32), ncol, -1] + ([7, base + pal] if comp in (1, 2) else [0, 0])
        pixt = {24: 'gil::rgb8_pixel_t', 32: 'gil::rgba8_pixel_t'}.get(bpp)
        common = hdr == 40 and (w, h) == (3, 2) and ncol < 16 and comp in (0, 3) and bpp != 2   # RLE (comp 1, 2): thorough attempts only (no verdict in 300 s)
        lens_q = [full, full - 1, base + pal, 0] if common else [full]
        lens_t = sorted(set([0, 1, 2, 10, 14, 18, 26, 30, base - 1, base, base + pal - 1, base + pal, base + pal + 1, full - 1, full, full + 2] + list(range(base + pal, full))))
        if comp in (1, 2): lens_t = [full]
        for L in [x for x in lens_t if x >= 0]:
            if bpp == 8 and comp == 0 and L not in (full, base + pal): lens_q = [full, base + pal]   # 8-bit palettes are padded to 256 entries: 65 s per query
            t = 'quick' if (L in lens_q and (common or (hdr != 40 and (w, h) == (3, 2) and bpp in (24, 8) and comp == 0 and ncol < 16) or (hdr == 40 and bpp in (24, 8) and comp == 0 and L == full))) else 'thorough'
            add('bmp', name, 'convert_image', 1, None, par, L, t)
            if pixt and comp == 0: add('bmp', name, 'read_image', 1, pixt, par, L, t if (w, h) == (3, 2) else 'thorough')
            if L in (0, 10, 14, 18, 30, base - 1, base): add('bmp', name, 'info', 1, None, par, L, t if (common and bpp == 24) else 'thorough')
            if L == full:
                add('bmp', name, 'convert_image', 2, None, par, L, 'quick' if (common and bpp in (24, 8)) else 'thorough')
                add('bmp', name, 'convert_view', 1, None, par, L, 'quick' if (common and bpp in (24, 4)) else 'thorough')
                add('bmp', name, 'scanline', 1, None, par, L, 'quick' if (common and comp == 0 and bpp in (24, 8, 4, 1)) else 'thorough')
    # ------------------------------------------------------------------ PNM: [type, w, h, maxval, variant]
    for t_ in range(1, 7):
        for (w, h) in ((3, 2), (9, 1), (1, 1)):
            for var in (0, 1, 2, 3, 4):
                if var in (3, 4) and t_ not in (2, 3): continue
                for mx in (255, 300, 1):
                    if mx != 255 and (var != 0 or (w, h) != (3, 2)): continue
                    hdr_len = 3 + (3 if var == 1 else 0) + (11 if var == 2 else len(str(w))) + 1 + len(str(h)) + 1 + (0 if t_ in (1, 4) else len(str(mx)) + 1)
                    ch = 3 if t_ in (3, 6) else 1
                    if t_ == 1: data = w * h * 2
                    elif t_ in (2, 3): data = w * h * ch * 4 + (14 if var == 3 else (13 if var == 4 else 0))
                    elif t_ == 4: data = ((w + 7) // 8) * h
                    else: data = w * h * ch
                    full = hdr_len + data
                    name = 'p%d_%dx%d_m%d_v%d' % (t_, w, h, mx, var)
                    pix = 'gil::rgb8_pixel_t' if t_ in (3, 6) else 'gil::gray8_pixel_t'
                    UNW[0] = 26 if (t_ <= 3 or var == 2) else 16; USET[0] = [(r'^F_h_read$|^F_h_info_twice$|make_file', 120)] if t_ <= 3 else ([(r'read_bin_data|mirror_bits', 300)] if t_ == 4 else [])   # harness loops constraining ascii data; P4 rows go through a 256-entry bit-mirroring table
                    lens = sorted(set([0, 1, 2, 3, hdr_len - 1, hdr_len, hdr_len + 1, full - 1, full, full + 2]))
                    for L in [x for x in lens if x >= 0]:
                        quick = (w, h) == (3, 2) and L in (full, full - 1, hdr_len) and (var == 0 or L == full) and mx in (255, 300)
                        if (w, h) == (9, 1) and t_ in (1, 4) and L == full and var == 0: quick = True
                        add('pnm', name, 'convert_image', 1, None, [t_, w, h, mx, var, seed % 97], L, 'quick' if quick else 'thorough')
                        if t_ in (2, 3, 5, 6) and var == 0 and L == full:
                            add('pnm', name, 'read_image', 1, pix, [t_, w, h, mx, var, seed % 97], L, 'quick' if (w, h) == (3, 2) else 'thorough')
                            add('pnm', name, 'convert_image', 2, None, [t_, w, h, mx, var, seed % 97], L, 'quick' if (w, h) == (3, 2) and t_ in (3, 5) else 'thorough')
                        if L in (full, full - 1) and var == 0 and mx == 255: add('pnm', name, 'scanline', 1, None, [t_, w, h, mx, var, seed % 97], L, 'quick' if ((w, h) == (3, 2) and t_ in (2, 4, 5, 6)) else 'thorough')
                        if L in (0, 2, hdr_len - 1, hdr_len): add('pnm', name, 'info', 1, None, [t_, w, h, mx, var, seed % 97], L, 'quick' if (t_ in (2, 6) and (w, h) == (3, 2) and var in (0, 2)) else 'thorough')
    # ------------------------------------------------------------------ TARGA: [idlen, cmaptype, imgtype, bpp, desc, w, h]
    for imgtype in (2, 10, 1, 3):
        for bpp, desc in ((24, 0), (24, 32), (32, 8), (32, 40), (16, 0), (24, 1)):
            for idlen in (0, 3):
                for (w, h) in ((3, 2), (1, 1), (0, 2)):
                    full = 18 + idlen + w * h * (bpp // 8)
                    name = 't%d_bpp%d_d%d_id%d_%dx%d' % (imgtype, bpp, desc, idlen, w, h)
                    # RLE packets carry up to 128 pixels: the decoder's copy loop needs that bound
                    UNW[0] = 16; USET[0] = [(r'^F_h_read$|^F_h_info_twice$|make_file', 70)] if imgtype == 10 else []; rle = [0x7C, 18 + idlen] if imgtype == 10 else [0, 0]   # RLE: packets of 1..4 pixels
                    lens = sorted(set([0, 1, 3, 12, 17, 18, 18 + idlen, 18 + idlen + 1, full - 1, full, full + 2]))
                    if imgtype == 10: lens = [full] if ((w, h) == (3, 2) and idlen == 0) else []
                    for L in [x for x in lens if x >= 0]:
                        ok = imgtype in (2, 10) and (bpp, desc) in ((24, 0), (24, 32), (32, 8), (32, 40))
                        quick = imgtype != 10 and (w, h) == (3, 2) and idlen == 0 and L in (full, full - 1, 18) and (ok or L == full) 
                        pix = 'gil::rgba8_pixel_t' if bpp == 32 else 'gil::rgb8_pixel_t'
                        add('targa', name, 'read_image', 1, pix, [idlen, 0, imgtype, bpp, desc, w, h] + rle, L, 'quick' if quick else 'thorough')
                        if ok and L == full:
                            add('targa', name, 'convert_image', 1, None, [idlen, 0, imgtype, bpp, desc, w, h] + rle, L, 'quick' if (quick and imgtype == 2) else 'thorough')
                            add('targa', name, 'read_image', 2, pix, [idlen, 0, imgtype, bpp, desc, w, h] + rle, L, 'quick' if (quick and desc in (0, 8)) else 'thorough')
                        if ok and L in (full, full - 1): add('targa', name, 'scanline', 1, None, [idlen, 0, imgtype, bpp, desc, w, h] + rle, L, 'quick' if (quick and imgtype == 2) else 'thorough')
                        if L in (0, 3, 17, 18): add('targa', name, 'info', 1, None, [idlen, 0, imgtype, bpp, desc, w, h] + rle, L, 'quick' if (quick or ((w, h) == (3, 2) and idlen == 0 and imgtype == 2 and bpp == 24 and desc == 0)) else 'thorough')
    # ------------------------------------------------------------------ run-length-coded data with concrete structure, symbolic colour values
    S = 256
    bmp8_streams = {
        'valid':        [3, S, 0, 0, 2, S, 1, S, 0, 0, 0, 1],
        'cross_row':    [2, S, 3, S, 0, 0, 3, S, 0, 1],
        'long_run':     [7, S, 0, 0, 200, S, 0, 1],
        'absolute':     [0, 3, S, S, S, 0, 0, 0, 0, 4, S, S, S, S, 0, 1],
        'absolute_odd_cross': [2, S, 0, 3, S, S, S, 0, 0, 0, 0, 1],
        'delta':        [0, 2, 1, 1, 1, S, 0, 0, 0, 2, 5, 5, 1, S, 0, 1],
        'no_eob':       [3, S, 0, 0, 3, S],
        'extra_rows':   [3, S, 0, 0, 3, S, 0, 0, 3, S, 0, 0, 3, S, 0, 1],
    }
    for comp, bpp in ((1, 8), (2, 4)):
        for sn, st in bmp8_streams.items():
            base = 54; pal = 16; ds = base + pal
            for L in sorted(set([ds + len(st), ds + len(st) - 1, ds + len(st) // 2])):
                par = [1, 40, bpp, comp, 3, 2, 4, ds, -1, ds, 0, 0, 0, 0] + [len(st)] + st
                p = [L] + par
                d = dict(FORMAT=1, ENTRY=E['convert_image'], DEV=1)
                qs.append(Q('bmp/convert_image/file/rle%d_%s/L%d' % (bpp, sn, L), 'C11/read.cpp', 'h_read', defs=d, params=p, rt=['file'], unwind=20,
                            unwindset=[(r'St6vector|fill_n|uninitialized|read_palette', 310)], rt_unwind=L + 4, mem_unwind=400, cdefs=dict(VP_FILE_MAX=L + 8),
                            tier='quick' if (L == ds + len(st) and ((bpp == 4 and sn != 'absolute') or sn in ('valid', 'cross_row'))) else 'thorough', timeout=300,
                            note='run-length structure concrete, colour indices symbolic'))
    # the same streams with concrete colour indices: the whole file is concrete, the symbolic executor just runs the decoder and the model
    # checker's object bounds are the oracle (this is a concrete test through the memory model, listed as such in the evidence)
    for comp, bpp in ((1, 8), (2, 4)):
        for sn, st in bmp8_streams.items():
            base = 54; pal = 16; ds = base + pal
            conc = [(b if b != S else (1 + (i * 3) % 3)) for i, b in enumerate(st)]
            L = ds + len(conc)
            hdrfill = list(range(2, 10)) + list(range(26, 28)) + list(range(34, 46)) + list(range(50, 70))   # remaining header / palette bytes
            par = [1, 40, bpp, comp, 3, 2, 4, ds, -1, ds, 0, 0, 0, 0] + [len(conc)] + conc
            qs.append(Q('bmp/convert_image/file/runlen%d_%s_concrete/L%d' % (bpp, sn, L), 'C11/read.cpp', 'h_read', defs=dict(FORMAT=1, ENTRY=E['convert_image'], DEV=1, CONCRETE_REST=1, EXPECT_OUTCOME=(1 if sn in ('valid', 'cross_row', 'long_run', 'absolute', 'delta') else 0)), params=[L] + par, rt=['file'], unwind=20,
                        unwindset=[(r'St6vector|fill_n|uninitialized|read_palette', 310), (r'^F_h_read$', 130)], rt_unwind=L + 4, mem_unwind=400, cdefs=dict(VP_FILE_MAX=L + 8), tier='quick' if (bpp == 4 or sn in ('valid', 'cross_row', 'absolute_odd_cross')) else 'thorough', timeout=300,
                        note='fully concrete file: decoder executed through the memory model (object bounds oracle), no symbolic data'))
    tga_streams = {   # 24-bit, 3x2 = 6 pixels; packet header: 0x80|(n-1) run of one pixel, n-1 raw pixels
        'valid':      [0x82, S, S, S, 0x02, S, S, S, S, S, S, S, S, S],
        'run_over':   [0x82, S, S, S, 0x85, S, S, S],
        'raw_over':   [0x82, S, S, S, 0x04, S, S, S, S, S, S, S, S, S, S, S, S, S, S, S],
        'max_run':    [0xFF, S, S, S],
        'truncated_run': [0x85, S, S],
    }
    for sn, st in tga_streams.items():
        ds = 18
        for L in sorted(set([ds + len(st), ds + len(st) - 1])):
            par = [0, 0, 10, 24, 0, 3, 2, -1, ds, 0, 0, 0, 0, 0] + [len(st)] + st
            # targa_file: mask at base+7 (param index 8), datastart base+8; structured stream from base+14
            qs.append(Q('targa/read_image/file/rle_%s/L%d' % (sn, L), 'C11/read.cpp', 'h_read', defs=dict(FORMAT=3, ENTRY=E['read_image'], DEV=1, PIX='gil::rgb8_pixel_t'), params=[L] + par, rt=['file'],
                        unwind=140, rt_unwind=L + 4, mem_unwind=400, cdefs=dict(VP_FILE_MAX=L + 8), tier='quick' if L == ds + len(st) else 'thorough', timeout=300,
                        note='run-length structure concrete, colour values symbolic'))
    # 32-bit pixels: packet byte counts reach 4 * 128 = 512, i.e. beyond one byte
    tga32_streams = {
        'valid':      [0x82, S, S, S, S, 0x02, S, S, S, S, S, S, S, S, S, S, S, S],
        'run64_over': [0xBF, S, S, S, S],            # 64 pixels = 256 bytes into a 24-byte image
        'max_run':    [0xFF, S, S, S, S],            # 128 pixels = 512 bytes
        'raw64_over': [0x3F] + [S] * 24,
    }
    for sn, st in tga32_streams.items():
        ds = 18; L = ds + len(st)
        par = [0, 0, 10, 32, 8, 3, 2, -1, ds, 0, 0, 0, 0, 0] + [len(st)] + st
        qs.append(Q('targa/read_image/file/rle32_%s/L%d' % (sn, L), 'C11/read.cpp', 'h_read', defs=dict(FORMAT=3, ENTRY=E['read_image'], DEV=1, PIX='gil::rgba8_pixel_t'), params=[L] + par, rt=['file'],
                    unwind=140, rt_unwind=L + 4, mem_unwind=600, cdefs=dict(VP_FILE_MAX=L + 8), tier='quick', timeout=300,
                    note='run-length structure concrete, colour values symbolic'))
    import re as _re
    for q in qs:
        if _re.search(r'_c[12]_|/t10_', q.name): q.timeout = 100; q.tier = 'thorough'   # run-length data with symbolic structure: attempts, short cap, never quick
    names = set(); out = []
    for q in qs:
        if q.name in names: continue
        names.add(q.name); out.append(q)
    # the same files through a std::istream (GIL's istream_device over the stream model rt/rt_ios.c): twins of the FILE* queries
    import copy as _copy, zlib as _zlib
    for q in list(out):
        if q.defs.get('DEV') != 1 or q.defs.get('ENTRY') not in (1, 2, 4, 5) or q.entry != 'h_read' or q.defs.get('CONCRETE_REST'): continue
        t = _copy.copy(q); t.defs = dict(q.defs, DEV=3); t.rt = ['file', 'ios']; t.name = q.name.replace('/file/', '/istream/')
        t.tier = 'quick' if (q.tier == 'quick' and _zlib.crc32(q.name.encode()) % 6 == 0) else 'thorough'
        if q.defs['FORMAT'] == 1 and q.params[8] == -1:
            # BMP through the stream model: the pixel-data offset (seekg target) is concrete = end of header + palette; a symbolic seek
            # position makes every later stream read a symbolic-offset copy (no verdict in 300 s); symbolic offsets stay with the FILE* twins
            hdr, bpp, comp, ncol = q.params[2], q.params[3], q.params[4], q.params[7]
            pal = (ncol if ncol < 16 else 0) * (3 if hdr == 12 else 4) if bpp <= 8 else 0
            t.params = list(q.params); t.params[8] = 14 + hdr + (12 if comp == 3 else 0) + pal
        t.shape = dict(t.defs, params=list(t.params))
        out.append(t)
    # header determinism: read_image_info twice over the same (truncated) bytes must give the same outcome and the same header values
    # (a header field assembled from bytes that a short read never filled is an arbitrary value in the model: the two parses differ)
    byname = dict((q.name, q) for q in out)
    for q in list(out):
        if q.defs.get('ENTRY') != 2 or q.entry != 'h_read' or q.defs.get('DEV') not in (1, 3): continue
        t = _copy.copy(q); t.entry = 'h_info_twice'; t.name = q.name.replace('/info/', '/info_twice/'); t.memcheck = True
        if q.defs['DEV'] == 3:
            f = byname.get(q.name.replace('/istream/', '/file/'))
            t.tier = f.tier if f is not None else q.tier
        out.append(t)
    return out
