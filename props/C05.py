BOUNDS = ('every ordered pair of provided layouts of each colour space (gray; rgb/bgr; rgba/bgra/argb/abgr; cmyk; devicen<2>; devicen<5>) x every ordered pair of pixel models of one channel family '
          '(uint8_t channels: pixel value, C++ reference into an interleaved buffer, planar_pixel_reference [canonical layout, >= 2 channels]; packed channels: packed_pixel value, '
          'bit_aligned_pixel_reference at bit 3 of a byte) is one compiled harness (thorough tier: the full product, 233 type pairs; quick tier: every colour space, every layout at least once on each '
          'side, every model pair at least once). Inside a query all channel values of both pixels (and the bytes around referenced pixels) are symbolic. The expected channel mapping of every layout is '
          'written down in props/C05.py independently of the library and compared with it.')
OUTSIDE = ('user-defined layouts and colour spaces; channel types other than uint8_t / packed 1..3-bit channels (pairing does not depend on the channel type); heterogeneous pairs uint8_t <-> packed channels '
           '(not compatible in GIL); construction of a mutable planar_pixel_reference from a devicen pixel lvalue (does not compile: constructor pattern pixel<C, layout<CS,Mapping>>& does not match the derived '
           'devicen_layout_t -- kept as thorough-tier query */construct_ref for devicen); static_for_each with mixed const/non-const triples other than (mutable, const, mutable); order in which the '
           'static_* algorithms visit the channels (not specified by the property)')
ASSUMPTIONS = ['memory slot of a channel = byte offset inside the pixel (interleaved), plane index (planar), or rank of its first bit (packed / bit-aligned), little-endian carrier',
               'packed models use the per-colour bit widths of WIDTHS below; channels written by generate/fill/transform functors stay inside their width']
SRC = 'C05/pair.cpp'
# colour space -> (number of colours, {layout type: expected mapping colour index -> memory slot}, per-colour bit widths of the packed models)
CS = {
    'gray': (1, {'gil::gray_layout_t': (0,)}, (3,)),
    'rgb': (3, {'gil::rgb_layout_t': (0, 1, 2), 'gil::bgr_layout_t': (2, 1, 0)}, (3, 2, 3)),
    'rgba': (4, {'gil::rgba_layout_t': (0, 1, 2, 3), 'gil::bgra_layout_t': (2, 1, 0, 3), 'gil::argb_layout_t': (1, 2, 3, 0), 'gil::abgr_layout_t': (3, 2, 1, 0)}, (2, 3, 2, 1)),
    'cmyk': (4, {'gil::cmyk_layout_t': (0, 1, 2, 3)}, (2, 1, 3, 2)),
    'dev2': (2, {'gil::devicen_layout_t<2>': (0, 1)}, (3, 2)),
    'dev5': (5, {'gil::devicen_layout_t<5>': (0, 1, 2, 3, 4)}, (1, 2, 1, 2, 2)),
}
MODELS = {0: 'val', 1: 'ref', 2: 'planar', 3: 'packed', 4: 'bital'}
def lname(l): return l.replace('gil::', '').replace('_layout_t', '').replace('<', '').replace('>', '')
def mem_sizes(widths, mapping):
    out = [0] * len(mapping)
    for j, m in enumerate(mapping): out[m] = widths[j]
    return ','.join(str(x) for x in out)
def types_of(cs, family):
    """(layout, model) combinations that exist for a colour space; family 0 = uint8_t channels, 1 = packed channels"""
    n, lays, _ = CS[cs]
    ts = []
    for li, (lay, mp) in enumerate(lays.items()):
        for m in ((0, 1, 2) if family == 0 else (3, 4)):
            if m == 2 and (li != 0 or n < 2): continue          # planar references: canonical layout only, no 1-channel constructor
            ts.append((lay, m))
    return ts
def pair_queries(cs, a, b, tier_pair, tier_single):
    n, lays, widths = CS[cs]
    (la, ma), (lb, mb) = a, b
    single = 1 if a == b else 0
    d = dict(NCH=n, LAY_A=la, LAY_B=lb, MAP_A=','.join(map(str, lays[la])), MAP_B=','.join(map(str, lays[lb])), MODEL_A=ma, MODEL_B=mb, SINGLE=single)
    if ma >= 3: d['SIZES_A'] = mem_sizes(widths, lays[la]); d['SIZES_B'] = mem_sizes(widths, lays[lb])
    cref = 1 if (ma == 2 and mb <= 1) else 0
    dev_cref = cref and cs.startswith('dev')
    d['CONSTRUCT_REF'] = 1 if (cref and not dev_cref) else 0
    nm = '%s/%s_%s__from__%s_%s' % (cs, lname(la), MODELS[ma], lname(lb), MODELS[mb])
    qs = []
    for e in ('h_assign', 'h_construct', 'h_equal', 'h_for_each', 'h_transform'):
        qs.append(Q('%s/%s' % (nm, e[2:]), SRC, e, defs=d, unwind=64, tier=tier_pair, timeout=120))
    if cref and not dev_cref:
        qs.append(Q('%s/construct_ref' % nm, SRC, 'h_construct_ref', defs=d, unwind=64, tier=tier_pair, timeout=120))
    if dev_cref:
        d2 = dict(d, CONSTRUCT_REF=1)
        qs.append(Q('%s/construct_ref' % nm, SRC, 'h_construct_ref', defs=d2, unwind=64, tier='thorough', timeout=120,
                    note='expected build error: planar_pixel_reference(pixel<C, layout<CS,Mapping>>&) does not match devicen_layout_t'))
    if single:
        for e in ('h_index', 'h_single') + (('h_minmax',) if ma <= 2 else ()):
            qs.append(Q('%s/%s' % (nm.split('__from__')[0], e[2:]), SRC, e, defs=d, unwind=64, tier=tier_single, timeout=120))
    return qs

# quick tier: (colour space, (dst layout, dst model), (src layout, src model)) -- every colour space, every layout on both sides, every model pair of a family
V, R, P, K, B = 0, 1, 2, 3, 4
def L(x): return 'gil::%s_layout_t' % x if not x.startswith('dev') else 'gil::devicen_layout_t<%s>' % x[3:]
QUICK_PAIRS = [
    ('gray', ('gray', V), ('gray', R)), ('gray', ('gray', K), ('gray', B)),
    ('rgb', ('bgr', V), ('rgb', V)), ('rgb', ('bgr', R), ('rgb', P)), ('rgb', ('rgb', P), ('bgr', V)), ('rgb', ('rgb', V), ('bgr', R)), ('rgb', ('rgb', P), ('rgb', P)),
    ('rgb', ('rgb', K), ('bgr', B)), ('rgb', ('bgr', B), ('rgb', K)), ('rgb', ('bgr', K), ('rgb', K)), ('rgb', ('rgb', B), ('bgr', B)),
    ('rgba', ('rgba', V), ('abgr', V)), ('rgba', ('bgra', R), ('argb', V)), ('rgba', ('argb', V), ('bgra', R)), ('rgba', ('abgr', R), ('rgba', P)), ('rgba', ('rgba', P), ('argb', R)),
    ('rgba', ('argb', K), ('bgra', B)), ('rgba', ('bgra', B), ('abgr', K)), ('rgba', ('abgr', K), ('rgba', K)), ('rgba', ('rgba', B), ('argb', B)),
    ('cmyk', ('cmyk', V), ('cmyk', P)), ('cmyk', ('cmyk', B), ('cmyk', K)),
    ('dev2', ('dev2', P), ('dev2', V)), ('dev2', ('dev2', K), ('dev2', B)),
    ('dev5', ('dev5', R), ('dev5', P)), ('dev5', ('dev5', B), ('dev5', K)),
]
QUICK_SINGLES = [('gray', 'gray', V), ('gray', 'gray', B), ('rgb', 'rgb', P), ('rgb', 'bgr', V), ('rgb', 'bgr', B), ('rgb', 'rgb', K),
                 ('rgba', 'argb', V), ('rgba', 'abgr', R), ('rgba', 'rgba', P), ('rgba', 'bgra', K), ('rgba', 'argb', B), ('rgba', 'abgr', B),
                 ('cmyk', 'cmyk', R), ('cmyk', 'cmyk', K), ('dev2', 'dev2', P), ('dev5', 'dev5', V), ('dev5', 'dev5', B)]
def queries(tier, seed):
    qs = []
    qp = set((cs, (L(a[0]), a[1]), (L(b[0]), b[1])) for (cs, a, b) in QUICK_PAIRS)
    qsg = set((cs, (L(l), m)) for (cs, l, m) in QUICK_SINGLES)
    seen = set()
    for cs in CS:
        for family in (0, 1):
            ts = types_of(cs, family)
            for a in ts:
                for b in ts:
                    seen.add((cs, a, b))
                    tp = 'quick' if (cs, a, b) in qp else 'thorough'
                    tsg = 'quick' if (a == b and (cs, a) in qsg) else 'thorough'
                    qs += pair_queries(cs, a, b, tp, tsg)
    assert qp <= seen and all((cs, a, a) in seen for (cs, a) in qsg), 'quick selection names a type pair that does not exist'
    return qs
