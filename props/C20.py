BOUNDS = ('line (bresenham_line_rasterizer): all four end point coordinates symbolic in [-N,N] (N=4 quick, N=8 thorough), i.e. every direction vector with '
          '|dx|,|dy| <= 2N in every position; the major extent M = max(|dx|,|dy|) in 0..2N is concrete per query (it decides point_count(), the size of the '
          'exactly-point_count() output array and the loop count), orientation, signs, minor extent and position stay symbolic; clauses that fail on the '
          'unchanged tree are split into the class "minor extent >= 1 and M+1 >= 4*(minor extent+1)" (kept as its own failing query) and its complement (must pass). '
          'apply_rasterizer(line): both extents concrete per query (0 <= minor <= major <= 2N), both orientations and all four directions, view = exactly the bounding '
          'box over an exact-size pixel buffer, symbolic colour.  '
          'midpoint circle: radius concrete per query 0..6 (quick) / 0..12 (thorough), centre symbolic in [-16,16]^2; written points checked through one symbolic index; '
          'one-pixel band is the exact Euclidean one (r-1)^2 <= x^2+y^2 <= (r+1)^2; apply_rasterizer on a (2r+1+pad)^2 view, pad 0 (quick) and 1, centre symbolic among the fitting positions.  '
          'midpoint ellipse: semi-axes concrete per query 0..3 (quick; trajectory clauses 0..5) / 0..6 (thorough), centre symbolic; first-quadrant trajectory in [0,a]x[0,b], within one pixel of the curve '
          'measured along an axis (sign change of b^2x^2+a^2y^2-a^2b^2 across a unit step), 8-connected from the x axis to the y axis; draw_curve on a (2a+3)x(2b+3) view with the '
          'centre symbolic among the 3x3 fitting positions: one symbolic pixel: 4-fold symmetry about the centre pixel, untouched outside the bounding box, drawn pixels within one pixel; '
          'apply_rasterizer(ellipse) on small concrete views with the centre symbolic in [0,w+a+2]x[0,h+b+2] (curve partly or wholly outside): writes clipped (exact-size buffer).')
OUTSIDE = ('trigonometric_circle_rasterizer (atan2/sin/cos decide the iteration count and every point: libm is not modelled); extents, radii and semi-axes above the bounds; '
           'coordinates near the limits of ptrdiff_t; semi-axes > 65535 (unsigned int products in obtain_trajectory wrap); pixel types other than gray8 in apply_rasterizer; '
           'the ellipse rasterizer has no point_count(), that clause applies to line and circle only')
ASSUMPTIONS = ['end points, centres, radii and semi-axes are small integers as stated in the bounds',
               'the ellipse centre is 1-based as documented in draw_curve (centre pixel = centre - (1,1))',
               '"closed" is read both as closed under the symmetry group and as a closed 8-connected curve (every circle point has two distinct 8-neighbours in the set; the ellipse quadrant trajectory is 8-connected and joins both axes)']
def long_shallow(M, k): return k >= 1 and M + 1 >= 4 * (k + 1)
def queries(tier, seed):
    qs = []
    L = 'C20/line.cpp'
    for N, t in ((4, 'quick'), (8, 'thorough')):
        for M in range(0, 2 * N + 1):
            u = M + 3
            has_ls = any(long_shallow(M, k) for k in range(0, M + 1))
            # count / first / last, and 8-connected + monotone: hold for every input
            for ent in ('ends', 'step'):
                qs.append(Q('line/N%d/%s/M%d' % (N, ent, M), L, 'h_line_' + ent, params=[N, 0, M], unwind=u, tier=t, timeout=120))
            # bounding box, one-pixel distance: split where the long shallow class is inhabited (M >= 7)
            for ent in ('bbox', 'dist'):
                kw = dict(unwind=u, tier=t, timeout=120 if N == 4 else 600, solvers=['minisat:20', 'kissat'] if M <= 8 else ['kissat'])
                if not has_ls:
                    qs.append(Q('line/N%d/%s/M%d' % (N, ent, M), L, 'h_line_' + ent, params=[N, 0, M], **kw))
                else:
                    qs.append(Q('line/N%d/%s/M%d/not_long_shallow' % (N, ent, M), L, 'h_line_' + ent, params=[N, 1, M], **kw))
                    qs.append(Q('line/N%d/%s/M%d/long_shallow' % (N, ent, M), L, 'h_line_' + ent, params=[N, 2, M],
                                note='input class on which the unchanged tree overshoots the end row/column (slope (|dy|+1)/(|dx|+1))', **kw))
    # apply_rasterizer(line): both extents concrete
    for M in range(0, 17):
        for k in range(0, M + 1):
            ls = long_shallow(M, k)
            qs.append(Q('line/apply/%dx%d%s' % (M, k, '/long_shallow' if ls else ''), L, 'h_line_apply', params=[M, k], unwind=max(M + 3, 6),
                        tier='quick' if M <= 8 else 'thorough', timeout=120))
    C = 'C20/circle.cpp'
    for r in range(0, 13):
        t = 'quick' if r <= 6 else 'thorough'
        n = 16 * (r + 2)      # harness-side cap on point_count(); the real count is 8*(round(r*cos(pi/4))+1)
        for ent in ('count', 'band', 'bbox', 'sym', 'closed'):
            qs.append(Q('circle/r%d/%s' % (r, ent), C, 'h_circle_' + ent, params=[r], unwind=n + 2, tier=t, timeout=120 if r <= 6 else 600))
        for pad in (0, 1):
            qs.append(Q('circle/r%d/apply/pad%d' % (r, pad), C, 'h_circle_apply', params=[r, pad], unwind=n + 2, tier=t if pad == 0 else 'thorough', timeout=120 if r <= 6 else 600))
    E = 'C20/ellipse.cpp'
    for a in range(0, 7):
        for b in range(0, 7):
            t = 'quick' if (a <= 3 and b <= 3) else 'thorough'
            u = (2 * a + 3) * (2 * b + 3) + 2
            qs.append(Q('ellipse/%dx%d/traj' % (a, b), E, 'h_ell_traj', params=[a, b], unwind=a + b + 4, tier='quick' if (a <= 5 and b <= 5) else 'thorough', timeout=120))
            qs.append(Q('ellipse/%dx%d/draw' % (a, b), E, 'h_ell_draw', params=[a, b], unwind=u, tier=t, timeout=300))
            for (w, h, tt) in ((max(1, a + 1), max(1, b), t), (1, 1, 'thorough'), (2 * a + 1, b + 2, 'thorough')):
                qs.append(Q('ellipse/%dx%d/clip_%dx%d' % (a, b, w, h), E, 'h_ell_clip', params=[a, b, w, h], unwind=a + b + 4, tier=tt, timeout=120))
    # drop duplicate clip shapes (a=0,b<=1 give 1x1 twice)
    seen = set(); out = []
    for q in qs:
        if q.name in seen: continue
        seen.add(q.name); out.append(q)
    return out
