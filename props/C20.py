BOUNDS = 'tbd'
OUTSIDE = 'tbd'
ASSUMPTIONS = []
def long_shallow(M, k): return k >= 1 and M + 1 >= 4 * (k + 1)
def queries(tier, seed):
    qs = []
    L = 'C20/line.cpp'
    for N, t in ((4, 'quick'), (8, 'thorough')):
        for M in range(0, 2 * N + 1):
            u = M + 3
            has_ls = any(long_shallow(M, k) for k in range(0, M + 1))
            for ent in ('ends', 'step'):
                qs.append(Q('line/N%d/%s/M%d' % (N, ent, M), L, 'h_line_' + ent, params=[N, 0, M], unwind=u, tier=t, timeout=120))
            for ent in ('bbox', 'dist'):
                if not has_ls:
                    qs.append(Q('line/N%d/%s/M%d' % (N, ent, M), L, 'h_line_' + ent, params=[N, 0, M], unwind=u, tier=t, timeout=120))
                else:
                    qs.append(Q('line/N%d/%s/M%d/not_long_shallow' % (N, ent, M), L, 'h_line_' + ent, params=[N, 1, M], unwind=u, tier=t, timeout=120))
                    qs.append(Q('line/N%d/%s/M%d/long_shallow' % (N, ent, M), L, 'h_line_' + ent, params=[N, 2, M], unwind=u, tier=t, timeout=120))
    # apply_rasterizer(line): both extents concrete
    for N, t in ((4, 'quick'), (8, 'thorough')):
        for M in range(0, 2 * N + 1):
            for k in range(0, M + 1):
                if N == 8 and M <= 8: continue
                ls = long_shallow(M, k)
                qs.append(Q('line/apply/%dx%d%s' % (M, k, '/long_shallow' if ls else ''), L, 'h_line_apply', params=[M, k], unwind=M + 3, tier=t, timeout=120))
    C = 'C20/circle.cpp'
    for r in range(0, 13):
        t = 'quick' if r <= 6 else 'thorough'
        n = 8 * (r + 2)
        for ent in ('count', 'band', 'bbox', 'sym', 'closed'):
            qs.append(Q('circle/r%d/%s' % (r, ent), C, 'h_circle_' + ent, params=[r], unwind=n + 2, tier=t, timeout=120))
        for pad in (0, 1):
            qs.append(Q('circle/r%d/apply/pad%d' % (r, pad), C, 'h_circle_apply', params=[r, pad], unwind=n + 2, tier=t, timeout=120))
    return qs
