#!/usr/bin/env python3
"""regenerate /verif/MANIFEST.json from the table below"""
import json, os
ROOT = os.path.dirname(os.path.dirname(os.path.abspath(__file__)))
TECH = 'bounded model checking (CBMC 6.11 + SAT portfolio minisat/cadical/kissat) of the clang-14 LLVM IR of the real GIL templates, translated to C by tools/ll2c.py; counterexamples replayed on a native ASan/UBSan build'
NOTE = 'trusted: clang 14 -O1 IR (the encoded artefact), tools/ll2c.py, the runtime model rt/*.c (allocator ledger, operator new/delete, C++ exception ABI, libc/FILE model), CBMC + SAT solvers; every bound, assumption and stub is listed per query in the evidence file'
CHECKS = {
 'C01': 'every accessor (view(x,y), row/col iterators, 1-D iterator, locator, reverse iterator) plus fill_pixels on images created by 7 paths (ctor, ctor+fill, copy, assign, recreate, recreate+fill, move) x 19 pixel organisations x concrete dimension/alignment/allocator-base-residue grids, and on views over exact-size caller buffers with symbolic dims <= 4x4: the allocator block / buffer is a heap object of exactly the requested size, so any access outside it is a failed proof obligation; coordinates and pixel values symbolic',
 'C02': 'dimensions, pixel identity under the documented coordinate formula and write-shallowness (one symbolic probe byte of the source buffer) for 8 transformations over 12 source view kinds with symbolic w,h <= 4, padding, parameters and coordinates; depth-2 compositions in the thorough tier',
 'C03': 'address identity of 13 navigation paths, locator arithmetic through three symbolic positions, random-access laws of the 1-D iterator (positions 0..w*h incl. end) and of x/y step iterators, empty/default views, is_1d_traversable => row_end == next row_begin, for 23 view kinds with symbolic shapes and positions',
 'C04': 'ten pixel algorithms against the per-pixel loop at one symbolic pixel plus one symbolic probe byte of the destination buffer (nothing outside the destination pixels changes), for layout pairs from interleaved/planar/stepped/transposed/flipped/packed/bit-aligned, concrete dims, paddings and sub-view offsets, symbolic contents',
 'C05': 'assignment / converting construction / equality pair channels by colour for every colour space x layout pair x pixel model pair (value, reference, planar reference, packed, bit-aligned), at_c vs semantic_at_c through the layout mapping, static_* algorithms visit each channel once paired by colour; all channel values symbolic',
 'C06': 'end points, range, monotonicity (successor form), within-one-unit linearity (128-bit integer oracle) and round trip of channel_convert for every ordered pair of 8/16/32-bit signed/unsigned, float32 and packed 1..16-bit channels; every value of <= 16-bit channels in one query, 32-bit linearity stratified',
 'C07': 'within-one-unit product, commutativity, monotonicity (successor form), identity/annihilator, range of channel_multiply and formula/involution/range of channel_invert for 8/16-bit signed/unsigned, float32 and packed channels; all pairs symbolic, 16-bit hard laws stratified by upper bytes',
 'C08': 'packed / bit-aligned channel and pixel writes change exactly their own bits (frame condition over carrier and guard bytes, symbolic background, value, start bit) for carriers 8..64 bit and widths 1..16; ++/--/+=/-=, swap, fill/copy through bit-aligned iterators; iterator advance/distance laws for n in [-16,16]',
 'C09': 'default colour conversion between gray/rgb/rgba/cmyk in all layouts: range, black/white, neutrals, luminance monotonicity and one-unit bound (two-step integer argument), rgb->cmyk->rgb within one level, premultiplied alpha, alpha carried, same-space = channel_convert, color_converted_view / copy_and_convert_pixels agree with color_convert; all 2^24/2^32 8-bit source pixels symbolic per law',
 'C10': 'image histories: 4 pre-states x 15 operations (x2, x3 in thorough) x allocator equal/unequal x propagation traits x fault point (k-th allocation throws) x shape grid: ledger invariants (<= 1 live block per image, dealloc size/allocator match, no leak, no double free), dimensions, row alignment on the modelled address, deep copies, moved-from usable, storage reuse, valid state after bad_alloc',
 'C11': 'BMP/PNM/TARGA readers (read_image, read_image_info, read_view, read_and_convert_image/view) over a FILE*/file-name model for every truncation point and header variant of small images: object bounds on all buffers, bounded loops (unwinding assertions), no division by zero, outcome is return or an expected exception, stream closed; structural header bytes concrete per query, all other bytes symbolic',
 'C12': 'write_view then read_image through the FILE model reproduces dimensions and every pixel (symbolic contents, symbolic compared position) for BMP, binary PNM and TARGA, supported pixel types, widths 1..5 (all row-padding residues), five view organisations, FILE* and file name',
 'C13': 'partial read == crop, read_and_convert == color_convert of the native read, read_view into a guarded pre-allocated view, file name == FILE*, read_image_info == dimensions, too-small view rejected with destination untouched, for BMP 24/32 (both orientations), PNM P5/P6, TARGA 24/32 raw (both orientations); pixel data symbolic',
 'C14': 'any_image / any_image_view over {gray8, rgb8, rgb8 planar}: observers, 13 view transformations (result holds the concrete result type and compares equal to it, pixel identity at a symbolic pixel), copy/convert/equal/fill/for_each/resample overloads against the concrete algorithm at one symbolic buffer byte, incompatible pairs throw std::bad_cast and leave the destination unchanged, deep any_image / shallow any_image_view copies, recreate keeps the alternative; alternative (pair) and dims concrete, contents symbolic',
 'C19': 'std-container histograms (extension/histogram/std.hpp): per-bin exactness for a symbolic bin with fully symbolic pixels, accumulate vs replace, sum of bins, cumulative monotone with last == total, vector/array agreement, gil::histogram key helpers; sparse gil::histogram (std::unordered_map with a model of _Prime_rehash_policy::_M_need_rehash) fill/cumulative on <= 2 symbolic pixels in the thorough tier; mask/limits, multi-axis, sub_histogram, normalize, std::map filler outside (pointer-rich libstdc++ containers)',
 'C16': 'threshold_binary/truncate per-channel definition for 4 channel types x modes x directions (all values symbolic), Otsu memory-safety/UB on u8/u16/s8/s16 images up to 2x2, dilate/erode == max/min over the in-image neighbourhood with a symbolic symmetric 3x3 structuring element on images up to 4x3, order and monotonicity consequences',
 'C18': 'toolbox colour spaces: rgb8->hsv/hsl channel ranges for all 2^24 pixels, hue periodicity and saturation-0 independence of hsv/hsl->rgb, ycbcr 601/709 ranges and round trips (stratified), cmyka, gray_alpha/alpha_gray -> rgba alpha carried, toolbox luminance == core weights',
 'C20': 'bresenham line (end points symbolic in [-N,N]^2, major extent concrete): point_count, first/last, 8-connected monotone steps, bounding box, one-pixel distance, apply_rasterizer on an exact bounding-box view; midpoint circle (radius concrete, centre symbolic): count, band, 8-fold symmetry, closedness, bounding box; ellipse (semi-axes concrete): trajectory, band, 4-fold symmetry, clipping',
}
PENDING = {
 'C15': 'check under construction (convolution / correlation vs textbook sums)',
 'C17': 'check under construction (samplers, resample_pixels, matrix3x2)',
}
def main():
    checks = []
    for pid in sorted(CHECKS):
        if not os.path.exists(os.path.join(ROOT, 'props', pid + '.py')): continue
        checks.append(dict(property_id=pid, quick_cmd='./gv check %s --tier quick' % pid, thorough_cmd='./gv check %s --tier thorough' % pid,
                           evidence_file='/verif/evidence/%s.json' % pid, replay_cmd_template='./gv replay {path}', engine='gv',
                           level_claimed=dict(category='model_checking', text='bounded symbolic execution of the real code decided by a SAT solver: ' + CHECKS[pid], design_ref='DESIGN.md section 6 ' + pid),
                           level_note=NOTE, technique=TECH))
    na = [dict(property_id=p, reason=r) for p, r in sorted(PENDING.items()) if p not in CHECKS]
    m = dict(version=1, setup_cmd='./gv setup',
             hooks=dict(guard='BOOSTORG_GIL_VERIF', enable='harness TUs are compiled with -DBOOSTORG_GIL_VERIF against /repo/include; no hook is present in /repo (every observation goes through public API)',
                        baseline_off_cmd='cmake --build /repo/_build -j16 && ctest --test-dir /repo/_build -j8 --timeout 900', source_commits=[], add_only=True),
             engines=[dict(name='gv', path='/verif/gv.py', serves_properties=[c['property_id'] for c in checks],
                           kind_free_text='clang-14 LLVM IR -> C (tools/ll2c.py) -> CBMC 6.11 bounded model checking with a SAT portfolio; native ASan/UBSan replay of counterexamples')],
             checks=checks, not_applicable=na,
             notes='fixes to /repo are separate "fix:" commits listed in known_findings.txt; recorded (unrepaired) findings are printed as KNOWN-FINDING lines')
    json.dump(m, open(os.path.join(ROOT, 'MANIFEST.json'), 'w'), indent=1)
    print('checks:', [c['property_id'] for c in checks], 'not_applicable:', [x['property_id'] for x in na])
if __name__ == '__main__': main()
