#!/usr/bin/env python3
"""ll2c: translate a subset of LLVM-14 textual IR (typed pointers, x86-64) into C for CBMC.
Prototype. Memory is byte addressed: every pointer is `unsigned char*`, GEPs become byte offsets.
"""
import re, sys, struct, json

# ----------------------------------------------------------------------------- tokenizer
TOK = re.compile(r'''
    (?P<ws>\s+)
  | (?P<str>c"(?:[^"\\]|\\[0-9A-Fa-f]{2}|\\\\)*")
  | (?P<qid>[%@]"(?:[^"\\]|\\.)*")
  | (?P<pstr>"(?:[^"\\]|\\.)*")
  | (?P<id>[%@][-a-zA-Z$._0-9]+)
  | (?P<meta>![-a-zA-Z$._0-9]*|!"(?:[^"\\]|\\.)*")
  | (?P<attr>\#[0-9]+)
  | (?P<hexf>0x[KLMHR]?[0-9A-Fa-f]+)
  | (?P<num>-?[0-9]+\.[0-9]*(?:e[+-]?[0-9]+)?|-?[0-9]+)
  | (?P<word>[a-zA-Z_][a-zA-Z_0-9.]*)
  | (?P<dots>\.\.\.)
  | (?P<p>[()\[\]{}<>,=*:|])
''', re.X)

def tokenize(s):
    out = []
    i = 0
    n = len(s)
    while i < n:
        if s[i] == ';':  # comment to EOL (only outside strings, we tokenise strings first)
            j = s.find('\n', i)
            i = n if j < 0 else j
            continue
        m = TOK.match(s, i)
        if not m:
            raise SyntaxError('bad token at %r' % s[i:i+40])
        i = m.end()
        k = m.lastgroup
        if k == 'ws':
            continue
        out.append((k, m.group()))
    return out

# ----------------------------------------------------------------------------- types
class T:
    pass
class Void(T):
    def __repr__(s): return 'void'
class Int(T):
    def __init__(s, n): s.n = n
    def __repr__(s): return 'i%d' % s.n
class Flt(T):
    def __init__(s, k): s.k = k  # 'float' | 'double'
    def __repr__(s): return s.k
class Ptr(T):
    def __init__(s, to): s.to = to
    def __repr__(s): return 'ptr'
class Arr(T):
    def __init__(s, n, el): s.n, s.el = n, el
    def __repr__(s): return '[%d x %r]' % (s.n, s.el)
class Vec(T):
    def __init__(s, n, el): s.n, s.el = n, el
    def __repr__(s): return '<%d x %r>' % (s.n, s.el)
class Struct(T):
    def __init__(s, els, packed=False, name=None): s.els, s.packed, s.name = els, packed, name
    def __repr__(s): return s.name or ('{%s}' % ','.join(map(repr, s.els or [])))
class Func(T):
    def __init__(s, ret, args, var): s.ret, s.args, s.var = ret, args, var
    def __repr__(s): return 'fn'
class Label(T):
    def __repr__(s): return 'label'
class Meta(T):
    def __repr__(s): return 'metadata'

class Module:
    def __init__(s):
        s.named = {}     # name -> Struct
        s.globals = {}   # name -> dict(type, init, const, external)
        s.funcs = {}     # name -> Function
        s.decls = {}     # name -> Func type
        s.order = []

M = None

def is_agg(t): return isinstance(t, (Arr, Struct, Vec))

def align_of(t):
    if isinstance(t, Int):
        b = (t.n + 7) // 8
        a = 1
        while a < b: a *= 2
        return min(a, 16) if t.n > 64 else min(a, 8)
    if isinstance(t, Flt): return 4 if t.k == 'float' else (8 if t.k == 'double' else 16)
    if isinstance(t, Ptr): return 8
    if isinstance(t, Arr): return align_of(t.el)
    if isinstance(t, Vec):
        s = size_of(t)
        a = 1
        while a < s: a *= 2
        return a
    if isinstance(t, Struct):
        if t.packed: return 1
        return max([align_of(e) for e in t.els] + [1])
    raise ValueError('align_of %r' % t)

def size_of(t):
    if isinstance(t, Int):
        b = (t.n + 7) // 8
        a = align_of(t)
        return (b + a - 1) // a * a
    if isinstance(t, Flt): return {'float': 4, 'double': 8, 'x86_fp80': 16}[t.k]
    if isinstance(t, Ptr): return 8
    if isinstance(t, Arr): return t.n * size_of(t.el)
    if isinstance(t, Vec): return t.n * ((t.el.n + 7) // 8 if isinstance(t.el, Int) else size_of(t.el))
    if isinstance(t, Struct):
        if t.els is None: raise ValueError('opaque struct size %s' % t.name)
        off = 0
        for e in t.els:
            a = 1 if t.packed else align_of(e)
            off = (off + a - 1) // a * a + size_of(e)
        a = align_of(t)
        return (off + a - 1) // a * a
    raise ValueError('size_of %r' % t)

def field_off(t, i):
    off = 0
    for k, e in enumerate(t.els):
        a = 1 if t.packed else align_of(e)
        off = (off + a - 1) // a * a
        if k == i: return off
        off += size_of(e)
    raise IndexError

# ----------------------------------------------------------------------------- parser
class P:
    def __init__(s, toks): s.t, s.i = toks, 0
    def peek(s, k=0): return s.t[s.i + k] if s.i + k < len(s.t) else ('eof', '')
    def next(s):
        x = s.peek(); s.i += 1; return x
    def accept(s, v):
        if s.peek()[1] == v:
            s.i += 1; return True
        return False
    def expect(s, v):
        x = s.next()
        if x[1] != v: raise SyntaxError('expected %r got %r near %r' % (v, x, s.t[max(0, s.i-6):s.i+4]))
    def eof(s): return s.i >= len(s.t)

    def ty(s):
        k, v = s.next()
        if k == 'word':
            if v == 'void': t = Void()
            elif re.fullmatch(r'i[0-9]+', v): t = Int(int(v[1:]))
            elif v in ('float', 'double', 'x86_fp80'): t = Flt(v)
            elif v == 'label': t = Label()
            elif v == 'metadata': t = Meta()
            elif v == 'ptr': t = Ptr(Int(8))
            elif v == 'opaque': t = Struct(None)
            elif v == 'token': t = Meta()
            else: raise SyntaxError('type? %r' % v)
        elif k in ('id', 'qid') and v[0] == '%':
            t = M.named.setdefault(v, Struct(None, name=v))
        elif v == '[':
            n = int(s.next()[1]); s.expect('x'); e = s.ty(); s.expect(']'); t = Arr(n, e)
        elif v == '{':
            els = []
            if not s.accept('}'):
                while True:
                    els.append(s.ty())
                    if s.accept('}'): break
                    s.expect(',')
            t = Struct(els)
        elif v == '<':
            if s.peek()[1] == '{':
                s.next(); els = []
                if not s.accept('}'):
                    while True:
                        els.append(s.ty())
                        if s.accept('}'): break
                        s.expect(',')
                s.expect('>'); t = Struct(els, packed=True)
            else:
                n = int(s.next()[1]); s.expect('x'); e = s.ty(); s.expect('>'); t = Vec(n, e)
        else:
            raise SyntaxError('type? %r %r' % (k, v))
        while True:
            if s.accept('*'):
                t = Ptr(t)
            elif s.peek()[1] == '(' :
                # function type
                s.next(); args = []; var = False
                if not s.accept(')'):
                    while True:
                        if s.peek()[0] == 'dots': s.next(); var = True
                        else: args.append(s.ty())
                        if s.accept(')'): break
                        s.expect(',')
                t = Func(t, args, var)
            elif s.peek()[1] == 'addrspace':
                s.next(); s.expect('('); s.next(); s.expect(')')
            else:
                break
        return t

    PARAM_ATTRS = set('noundef nonnull signext zeroext inreg noalias nocapture readonly readnone writeonly returned immarg nofree nest swiftself swifterror'.split())
    def skip_param_attrs(s):
        while True:
            k, v = s.peek()
            if k == 'word' and v in s.PARAM_ATTRS: s.next()
            elif k == 'word' and v in ('align', 'dereferenceable', 'dereferenceable_or_null'):
                s.next()
                if s.accept('('): s.next(); s.expect(')')
                else: s.next()
            elif k == 'word' and v in ('byval', 'sret', 'byref', 'inalloca', 'preallocated', 'elementtype'):
                s.next(); s.expect('('); s.ty(); s.expect(')')
            else: break

    def const_or_val(s, t):
        """parse a value of type t; returns expression tuple"""
        k, v = s.next()
        if k in ('id', 'qid'):
            return ('ref', v)
        if k == 'num':
            if isinstance(t, Flt): return ('fconst', float(v), t)
            return ('iconst', int(v), t)
        if k == 'hexf':
            if isinstance(t, Flt):
                if v[2] in 'KLMHR': raise SyntaxError('long double const')
                d = struct.unpack('>d', bytes.fromhex(v[2:].rjust(16, '0')))[0]
                return ('fconst', d, t)
            return ('iconst', int(v, 16), t)
        if k == 'word':
            if v == 'true': return ('iconst', 1, t)
            if v == 'false': return ('iconst', 0, t)
            if v == 'null': return ('null',)
            if v in ('undef', 'poison'): return ('undef', t)
            if v == 'zeroinitializer': return ('zero', t)
            if v == 'getelementptr':
                s.accept('inbounds'); s.expect('(')
                bt = s.ty(); s.expect(',')
                pt = s.ty(); pv = s.const_or_val(pt)
                idx = []
                while s.accept(','):
                    s.accept('inrange')
                    it = s.ty(); idx.append((it, s.const_or_val(it)))
                s.expect(')')
                return ('gep', bt, pv, idx)
            if v in ('bitcast', 'ptrtoint', 'inttoptr', 'trunc', 'zext', 'sext', 'addrspacecast'):
                s.expect('('); ft = s.ty(); fv = s.const_or_val(ft); s.expect('to'); tt = s.ty(); s.expect(')')
                return ('cast', v, ft, fv, tt)
            if v in ('add', 'sub', 'mul', 'and', 'or', 'xor', 'shl', 'lshr', 'ashr'):
                while s.peek()[1] in ('nsw', 'nuw', 'exact'): s.next()
                s.expect('('); at = s.ty(); a = s.const_or_val(at); s.expect(','); bt = s.ty(); b = s.const_or_val(bt); s.expect(')')
                return ('binop', v, at, a, b, set())
            if v == 'blockaddress': raise SyntaxError('blockaddress')
            raise SyntaxError('const word %r' % v)
        if k == 'str':
            raw = v[2:-1]; bs = bytearray(); i = 0
            while i < len(raw):
                if raw[i] == '\\':
                    if raw[i+1] == '\\': bs.append(92); i += 2
                    else: bs.append(int(raw[i+1:i+3], 16)); i += 3
                else: bs.append(ord(raw[i])); i += 1
            return ('bytes', bytes(bs))
        if v == '{' or v == '[' or (v == '<'):
            packed = False
            close = {'{': '}', '[': ']', '<': '>'}[v]
            if v == '<' and s.peek()[1] == '{':
                s.next(); packed = True; close = '}'
            els = []
            if not s.accept(close):
                while True:
                    et = s.ty(); els.append((et, s.const_or_val(et)))
                    if s.accept(close): break
                    s.expect(',')
            if packed: s.expect('>')
            return ('agg', els)
        raise SyntaxError('value? %r %r' % (k, v))

    def tv(s):
        t = s.ty(); s.skip_param_attrs(); return t, s.const_or_val(t)

class Function:
    def __init__(s, name, ret, params):
        s.name, s.ret, s.params = name, ret, params
        s.blocks = []  # (label, [instr])
        s.attrs = ''

def join_lines(text):
    """return logical lines: instruction continuation lines are merged"""
    out = []
    for ln in text.split('\n'):
        st = ln.strip()
        if not st or st.startswith(';'): continue
        if out and ln[:1] in ' \t' and (re.match(r'\s+(to label|catch |cleanup|filter |\]|i[0-9]+ -?[0-9]+, label)', ln)):
            out[-1] += ' ' + st
        else:
            out.append(ln)
    return out

FAST = set('fast nnan ninf nsz arcp contract afn reassoc'.split())

def parse_module(text):
    global M
    M = Module()
    M.text = text
    lines = join_lines(text)
    i = 0
    cur = None
    while i < len(lines):
        ln = lines[i]; i += 1
        st = ln.strip()
        if cur is None:
            if st.startswith(('source_filename', 'target ', 'attributes ', '!', 'module asm', '$')) : continue
            m = re.match(r'(%(?:"(?:[^"\\]|\\.)*"|[-a-zA-Z$._0-9]+)) = type (.*)$', st)
            if m:
                p = P(tokenize(m.group(2)))
                t = p.ty()
                nt = M.named.setdefault(m.group(1), Struct(None, name=m.group(1)))
                if isinstance(t, Struct): nt.els, nt.packed = t.els, t.packed
                continue
            if st.startswith('declare '):
                st = re.sub(r'![a-z]+ ![0-9]+ ', '', st)
                p = P(tokenize(st[8:]))
                skip_linkage(p)
                ret = p.ty()
                name = p.next()[1]
                p.expect('(')
                args = []; var = False
                if not p.accept(')'):
                    while True:
                        if p.peek()[0] == 'dots': p.next(); var = True
                        else:
                            args.append(p.ty()); p.skip_param_attrs()
                            if p.peek()[0] in ('id', 'qid'): p.next()
                        if p.accept(')'): break
                        p.expect(',')
                M.decls[name] = Func(ret, args, var)
                continue
            if st.startswith('define '):
                p = P(tokenize(st[7:]))
                skip_linkage(p)
                ret = p.ty()
                name = p.next()[1]
                p.expect('(')
                params = []
                if not p.accept(')'):
                    while True:
                        if p.peek()[0] == 'dots': p.next()
                        else:
                            t = p.ty(); p.skip_param_attrs()
                            pn = p.next()[1]
                            params.append((t, pn))
                        if p.accept(')'): break
                        p.expect(',')
                cur = Function(name, ret, params)
                cur.attrs = st
                cur.blocks.append(('%0' if not params else None, []))
                cur._implicit = True
                continue
            m = re.match(r'(@(?:"(?:[^"\\]|\\.)*"|[-a-zA-Z$._0-9]+)) = (.*)$', st)
            if m:
                parse_global(m.group(1), m.group(2))
                continue
            raise SyntaxError('toplevel? ' + st[:80])
        else:
            if st == '}':
                fix_entry_label(cur)
                M.funcs[cur.name] = cur; M.order.append(cur.name); cur = None; continue
            m = re.match(r'^([-a-zA-Z$._0-9]+|"(?:[^"\\]|\\.)*"):', st)
            if m and not ln.startswith(' '):
                cur.blocks.append(('%' + m.group(1), [])); continue
            cur.blocks[-1][1].append(parse_instr(st))
    return M

def fix_entry_label(f):
    # entry block label: first unnamed value number = number of unnamed params
    if f.blocks and f.blocks[0][0] in (None, '%0') and getattr(f, '_implicit', False):
        n = 0
        for t, pn in f.params:
            if re.fullmatch(r'%[0-9]+', pn): n = max(n, int(pn[1:]) + 1)
        f.blocks[0] = ('%' + str(n), f.blocks[0][1])
    if f.blocks and not f.blocks[0][1] and len(f.blocks) > 1:
        f.blocks.pop(0)

LINK = set('private internal available_externally linkonce weak common appending extern_weak linkonce_odr weak_odr external dso_local dso_preemptable default hidden protected dllimport dllexport unnamed_addr local_unnamed_addr thread_local externally_initialized ccc fastcc coldcc noundef nonnull signext zeroext noalias'.split())
def skip_linkage(p):
    while True:
        k, v = p.peek()
        if k == 'word' and v in LINK: p.next()
        elif k == 'word' and v in ('align', 'dereferenceable', 'dereferenceable_or_null'):
            p.next()
            if p.accept('('): p.next(); p.expect(')')
            else: p.next()
        else: break

def parse_global(name, rest):
    p = P(tokenize(rest))
    ext = False
    while True:
        k, v = p.peek()
        if k == 'word' and v in LINK:
            if v in ('external', 'extern_weak'): ext = True
            p.next()
        else: break
    k, v = p.next()
    if v == 'alias':
        return
    const = (v == 'constant')
    t = p.ty()
    init = None
    if not ext and not p.eof() and p.peek()[1] != ',':
        init = p.const_or_val(t)
    M.globals[name] = dict(type=t, init=init, const=const, ext=ext)

def parse_instr(st):
    toks = tokenize(st)
    # drop trailing metadata ", !dbg !12" and attrs
    cut = len(toks)
    for j, (k, v) in enumerate(toks):
        if k == 'meta' and j > 0 and toks[j-1][1] == ',':
            cut = j - 1; break
    toks = toks[:cut]
    p = P(toks)
    dst = None
    if p.peek(1)[1] == '=' and p.peek()[0] in ('id', 'qid'):
        dst = p.next()[1]; p.next()
    k, op = p.next()
    while op in ('tail', 'musttail', 'notail'): k, op = p.next()
    I = dict(op=op, dst=dst, src=st)
    if op in ('add', 'sub', 'mul', 'udiv', 'sdiv', 'urem', 'srem', 'and', 'or', 'xor', 'shl', 'lshr', 'ashr',
              'fadd', 'fsub', 'fmul', 'fdiv', 'frem'):
        fl = set()
        while p.peek()[1] in ('nsw', 'nuw', 'exact') or p.peek()[1] in FAST: fl.add(p.next()[1])
        t = p.ty(); a = p.const_or_val(t); p.expect(','); b = p.const_or_val(t)
        I.update(ty=t, a=a, b=b, flags=fl)
    elif op == 'fneg':
        while p.peek()[1] in FAST: p.next()
        t = p.ty(); I.update(ty=t, a=p.const_or_val(t))
    elif op in ('icmp', 'fcmp'):
        while p.peek()[1] in FAST: p.next()
        pred = p.next()[1]; t = p.ty(); a = p.const_or_val(t); p.expect(','); b = p.const_or_val(t)
        I.update(pred=pred, ty=t, a=a, b=b)
    elif op in ('trunc', 'zext', 'sext', 'fptrunc', 'fpext', 'fptoui', 'fptosi', 'uitofp', 'sitofp',
                'ptrtoint', 'inttoptr', 'bitcast', 'addrspacecast'):
        ft, fv = p.tv(); p.expect('to'); tt = p.ty()
        I.update(ft=ft, a=fv, tt=tt)
    elif op == 'freeze':
        t, v = p.tv(); I.update(op='bitcast', ft=t, a=v, tt=t)
    elif op == 'select':
        while p.peek()[1] in FAST: p.next()
        ct, c = p.tv(); p.expect(','); t, a = p.tv(); p.expect(','); t2, b = p.tv()
        I.update(ct=ct, c=c, ty=t, a=a, b=b)
    elif op == 'phi':
        while p.peek()[1] in FAST: p.next()
        t = p.ty(); inc = []
        while True:
            p.expect('['); v = p.const_or_val(t); p.expect(','); l = p.next()[1]; p.expect(']')
            inc.append((v, l))
            if not p.accept(','): break
        I.update(ty=t, inc=inc)
    elif op == 'alloca':
        p.accept('inalloca')
        t = p.ty(); n = None
        while p.accept(','):
            if p.peek()[1] == 'align': p.next(); I['align'] = int(p.next()[1])
            elif p.peek()[1] == 'addrspace': p.next(); p.expect('('); p.next(); p.expect(')')
            else: nt, n = p.tv()
        I.update(ty=t, n=n)
    elif op == 'load':
        p.accept('atomic'); p.accept('volatile')
        t = p.ty(); p.expect(','); pt, pv = p.tv()
        I.update(ty=t, p=pv)
    elif op == 'store':
        p.accept('atomic'); p.accept('volatile')
        t, v = p.tv(); p.expect(','); pt, pv = p.tv()
        I.update(ty=t, v=v, p=pv)
    elif op == 'getelementptr':
        p.accept('inbounds')
        bt = p.ty(); p.expect(','); pt, pv = p.tv(); idx = []
        while p.accept(','):
            it, iv = p.tv(); idx.append((it, iv))
        I.update(bt=bt, p=pv, pt=pt, idx=idx)
    elif op == 'br':
        if p.peek()[1] == 'label':
            p.next(); I.update(cond=None, t=p.next()[1])
        else:
            ct, c = p.tv(); p.expect(','); p.expect('label'); t = p.next()[1]; p.expect(','); p.expect('label'); f = p.next()[1]
            I.update(cond=c, t=t, f=f)
    elif op == 'switch':
        t, v = p.tv(); p.expect(','); p.expect('label'); d = p.next()[1]; p.expect('[')
        cases = []
        while not p.accept(']'):
            ct, cv = p.tv(); p.expect(','); p.expect('label'); cases.append((cv, p.next()[1]))
        I.update(ty=t, v=v, default=d, cases=cases)
    elif op == 'ret':
        t = p.ty()
        I.update(ty=t, v=None if isinstance(t, Void) else p.const_or_val(t))
    elif op in ('call', 'invoke'):
        while p.peek()[1] in FAST or p.peek()[1] in ('fastcc', 'ccc', 'coldcc'): p.next()
        p.skip_param_attrs()
        rt = p.ty()
        callee = p.const_or_val(Ptr(Int(8)))
        p.expect('(')
        args = []
        if not p.accept(')'):
            while True:
                at = p.ty(); p.skip_param_attrs()
                if isinstance(at, Meta):
                    # metadata arg: skip tokens to , or )
                    depth = 0
                    while not (depth == 0 and p.peek()[1] in (',', ')')):
                        x = p.next()[1]
                        if x in '([{': depth += 1
                        if x in ')]}': depth -= 1
                    args.append((at, ('undef', at)))
                else:
                    args.append((at, p.const_or_val(at)))
                if p.accept(')'): break
                p.expect(',')
        if isinstance(rt, Func): rt = rt.ret
        I.update(rt=rt, callee=callee, args=args)
        # skip fn attrs
        while not p.eof() and p.peek()[1] not in ('to',): p.next()
        if op == 'invoke':
            p.expect('to'); p.expect('label'); I['ok'] = p.next()[1]; p.expect('unwind'); p.expect('label'); I['lp'] = p.next()[1]
    elif op == 'landingpad':
        t = p.ty(); clauses = []; cleanup = False
        while not p.eof():
            w = p.next()[1]
            if w == 'cleanup': cleanup = True
            elif w == 'catch':
                ct, cv = p.tv(); clauses.append(('catch', cv))
            elif w == 'filter':
                ct, cv = p.tv(); clauses.append(('filter', cv))
        I.update(ty=t, clauses=clauses, cleanup=cleanup)
    elif op == 'resume':
        t, v = p.tv(); I.update(ty=t, v=v)
    elif op == 'unreachable':
        pass
    elif op == 'extractvalue':
        t, v = p.tv(); idx = []
        while p.accept(','): idx.append(int(p.next()[1]))
        I.update(ty=t, a=v, idx=idx)
    elif op == 'insertvalue':
        t, v = p.tv(); p.expect(','); et, ev = p.tv(); idx = []
        while p.accept(','): idx.append(int(p.next()[1]))
        I.update(ty=t, a=v, et=et, b=ev, idx=idx)
    elif op == 'extractelement':
        t, v = p.tv(); p.expect(','); it, iv = p.tv(); I.update(ty=t, a=v, i=iv)
    elif op == 'insertelement':
        t, v = p.tv(); p.expect(','); et, ev = p.tv(); p.expect(','); it, iv = p.tv(); I.update(ty=t, a=v, et=et, b=ev, i=iv)
    elif op == 'shufflevector':
        t, a = p.tv(); p.expect(','); t2, b = p.tv(); p.expect(','); mt, mv = p.tv(); I.update(ty=t, a=a, b=b, mt=mt, mask=mv)
    elif op == 'atomicrmw':
        p.accept('volatile'); rop = p.next()[1]; pt, pv = p.tv(); p.expect(','); t, v = p.tv()
        I.update(rop=rop, p=pv, ty=t, v=v)
    elif op == 'cmpxchg':
        p.accept('weak'); p.accept('volatile'); pt, pv = p.tv(); p.expect(','); t, c = p.tv(); p.expect(','); t2, n = p.tv()
        I.update(p=pv, ty=t, c=c, n=n)
    elif op == 'fence':
        pass
    else:
        raise SyntaxError('instr? ' + st[:100])
    return I

# ----------------------------------------------------------------------------- C emission
def cint(n):
    if n <= 8: return 'uint8_t'
    if n <= 16: return 'uint16_t'
    if n <= 32: return 'uint32_t'
    if n <= 64: return 'uint64_t'
    if n <= 128: return 'unsigned __int128'
    raise ValueError('int width %d' % n)
def csint(n):
    if n <= 8: return 'int8_t'
    if n <= 16: return 'int16_t'
    if n <= 32: return 'int32_t'
    if n <= 64: return 'int64_t'
    if n <= 128: return '__int128'
    raise ValueError

AGG_DECLS = {}
def aggname(t):
    """C struct type mirroring an LLVM first-class aggregate / vector VALUE (by-value SSA temporaries)"""
    key = repr_full(t)
    if key in AGG_DECLS: return AGG_DECLS[key][0]
    if isinstance(t, Struct):
        for e in t.els: ctype(e)
    else: ctype(t.el)
    nm = 'agg%d' % len(AGG_DECLS)
    AGG_DECLS[key] = [nm, None]
    if isinstance(t, Struct):
        body = ' '.join('%s f%d;' % (ctype(e), i) for i, e in enumerate(t.els)) or 'uint8_t empty_;'
    else:
        body = '%s e[%d];' % (ctype(t.el), t.n)
    AGG_DECLS[key][1] = 'typedef struct %s%s { %s } %s;' % ('__attribute__((packed)) ' if isinstance(t, Struct) and t.packed else '', nm, body, nm)
    return nm
def repr_full(t):
    if isinstance(t, Struct): return ('<{%s}>' if t.packed else '{%s}') % ','.join(repr_full(e) for e in (t.els or []))
    if isinstance(t, (Arr, Vec)): return '%s%d x %s' % ('[' if isinstance(t, Arr) else '<', t.n, repr_full(t.el))
    return repr(t)

def ctype(t):
    if isinstance(t, Int): return cint(t.n)
    if isinstance(t, Flt):
        if t.k == 'x86_fp80': return 'long double'
        return t.k
    if isinstance(t, Ptr): return 'uint8_t*'
    if isinstance(t, Void): return 'void'
    if is_agg(t): return aggname(t)
    raise ValueError('ctype %r' % t)

def mangle(n):
    n = n[1:]
    if n.startswith('"'): n = n[1:-1]
    return re.sub(r'[^A-Za-z0-9_]', lambda m: '_x%02x' % ord(m.group()), n)

class Emit:
    def __init__(s, mod, cfg):
        s.m, s.cfg = mod, cfg
        s.out = []
        s.typeids = {}
        s.extern_used = set()

    def mask(s, e, n):
        if n in (8, 16, 32, 64, 128): return e
        return '((%s)(%s) & %s)' % (cint(n), e, hexmask(n))

    def val(s, v, t, fn=None):
        k = v[0]
        if k == 'ref':
            name = v[1]
            if name[0] == '@':
                if name in s.m.funcs or name in s.m.decls:
                    s.extern_used.add(name)
                    return '((uint8_t*)&%s)' % s.fname(name)
                return '((uint8_t*)&G_%s)' % mangle(name)
            return 'v_' + mangle(name)
        if k == 'iconst':
            n = t.n
            x = v[1] & ((1 << n) - 1)
            if n > 64:
                return '(((unsigned __int128)%dULL << 64) | %dULL)' % (x >> 64, x & (2**64-1))
            return '((%s)%dULL)' % (cint(n), x)
        if k == 'fconst':
            d = v[1]
            if d != d: return '((%s)__builtin_nan(""))' % t.k
            if d in (float('inf'), float('-inf')): return '((%s)%s__builtin_inf())' % (t.k, '-' if d < 0 else '')
            if t.k == 'float': return '%sf' % float.hex(d) if False else '((float)%s)' % float.hex(d)
            return '(%s)' % float.hex(d)
        if k == 'null': return '((uint8_t*)0)'
        if k == 'undef':
            return s.nondet(t)
        if k == 'zero':
            if isinstance(t, Int): return '((%s)0)' % cint(t.n)
            if isinstance(t, Flt): return '((%s)0)' % t.k
            if isinstance(t, Ptr): return '((uint8_t*)0)'
            return '((%s){0})' % ctype(t)
        if k == 'gep':
            base = s.val(v[2], Ptr(v[1]))
            return '(%s + (%s))' % (base, s.gep_off(v[1], v[3]))
        if k == 'cast':
            _, op, ft, fv, tt = v
            if op == 'ptrtoint' and fv[0] == 'ref' and fv[1][0] == '@' and (fv[1] in s.m.funcs or fv[1] in s.m.decls):
                return s.mask('((%s)%dULL)' % (ctype(tt), s.func_id(fv[1])), tt.n)
            return s.cast(op, ft, s.val(fv, ft), tt)
        if k == 'binop':
            _, op, at, a, b, fl = v
            return s.binop(op, at, s.val(a, at), s.val(b, at))
        if k == 'agg':
            if isinstance(t, Struct):
                return '((%s){%s})' % (ctype(t), ', '.join(s.val(ev, et) for et, ev in v[1]))
            return '((%s){{%s}})' % (ctype(t), ', '.join(s.val(ev, et) for et, ev in v[1]))
        raise ValueError('val %r' % (v,))

    def func_id(s, name):
        """integer identity of a function whose address is converted to an integer (pointers to member functions store it as i64):
        a fixed even constant, mapped back to the function by vp_func_from_id (emitted into the same C file)"""
        if not hasattr(s, 'fids'): s.fids = {}
        if name not in s.fids: s.fids[name] = 0x7E0000000000 + 16 * (len(s.fids) + 1)
        s.extern_used.add(name)
        return s.fids[name]

    def typeinfo(s, e):
        if e not in s.typeids: s.typeids[e] = len(s.typeids) + 1

    def nondet(s, t):
        if isinstance(t, Int): return 'nondet_%s()' % cint(t.n).replace(' ', '_')
        if isinstance(t, Flt): return 'nondet_%s()' % t.k
        if isinstance(t, Ptr): return '((uint8_t*)nondet_uint64_t())'
        return 'nondet_%s()' % ctype(t)

    def gep_off(s, bt, idx):
        terms = []
        t = bt
        first = True
        for it, iv in idx:
            if first:
                sz = size_of(t); first = False
                terms.append(s.scaled(iv, it, sz))
                continue
            if isinstance(t, Struct):
                assert iv[0] == 'iconst', 'struct gep index must be constant'
                terms.append(str(field_off(t, iv[1])))
                t = t.els[iv[1]]
            elif isinstance(t, (Arr, Vec)):
                terms.append(s.scaled(iv, it, size_of(t.el)))
                t = t.el
            else:
                raise ValueError('gep into %r' % t)
        return ' + '.join(terms) if terms else '0'

    def scaled(s, iv, it, sz):
        if iv[0] == 'iconst':
            x = iv[1]
            if x >= 1 << (it.n - 1): x -= 1 << it.n
            return '(int64_t)%d' % (x * sz)
        e = s.val(iv, it)
        return '((int64_t)(%s)(%s) * %d)' % (csint(it.n), e, sz)

    def sx(s, e, n):
        """sign-extended C signed expression of an n-bit value"""
        if n in (8, 16, 32, 64, 128): return '((%s)(%s))' % (csint(n), e)
        w = 8 if n < 8 else 16 if n < 16 else 32 if n < 32 else 64 if n < 64 else 128
        return '((%s)((%s)(%s) << %d) >> %d)' % (csint(w), cint(w), e, w - n, w - n)

    def binop(s, op, t, a, b, flags=(), chk=None):
        if isinstance(t, Vec):
            raise ValueError('vector arithmetic not supported: run opt -scalarizer')
        n = t.n if isinstance(t, Int) else None
        ct = ctype(t)
        if op in ('fadd', 'fsub', 'fmul', 'fdiv'):
            return '(%s %s %s)' % (a, {'fadd': '+', 'fsub': '-', 'fmul': '*', 'fdiv': '/'}[op], b)
        if op == 'frem': return 'fmod%s(%s, %s)' % ('f' if t.k == 'float' else '', a, b)
        W = 'unsigned __int128' if n > 64 else ('uint64_t' if n > 32 else 'uint32_t')
        if op in ('add', 'sub', 'mul', 'and', 'or', 'xor'):
            o = {'add': '+', 'sub': '-', 'mul': '*', 'and': '&', 'or': '|', 'xor': '^'}[op]
            return s.mask('(%s)((%s)%s %s (%s)%s)' % (ct, W, a, o, W, b), n)
        if op == 'shl': return s.mask('(%s)((%s)%s << %s)' % (ct, W, a, b), n)
        if op == 'lshr': return '(%s)((%s)%s >> %s)' % (ct, W, a, b)
        if op == 'ashr': return s.mask('(%s)(%s >> %s)' % (ct, s.sx(a, n), b), n)
        if op == 'udiv': return '(%s)((%s)%s / (%s)%s)' % (ct, W, a, W, b)
        if op == 'urem': return '(%s)((%s)%s %% (%s)%s)' % (ct, W, a, W, b)
        if op == 'sdiv': return s.mask('(%s)(%s / %s)' % (ct, s.sx(a, n), s.sx(b, n)), n)
        if op == 'srem': return s.mask('(%s)(%s %% %s)' % (ct, s.sx(a, n), s.sx(b, n)), n)
        raise ValueError(op)

    def cast(s, op, ft, a, tt):
        if op in ('bitcast', 'addrspacecast'):
            if isinstance(ft, Ptr) and isinstance(tt, Ptr): return a
            if repr_full(ft) == repr_full(tt): return a
            return 'BITCAST(%s, %s, %s)' % (ctype(ft), ctype(tt), a)
        if op == 'trunc': return s.mask('(%s)(%s)' % (ctype(tt), a), tt.n)
        if op == 'zext': return '(%s)(%s)' % (ctype(tt), a)
        if op == 'sext': return s.mask('(%s)%s' % (ctype(tt), s.sx(a, ft.n)), tt.n)
        if op == 'ptrtoint': return s.mask('(%s)vp_ptrtoint(%s)' % (ctype(tt), a), tt.n)
        if op == 'inttoptr': return 'vp_inttoptr((uint64_t)(%s))' % a
        if op in ('fptrunc', 'fpext'): return '(%s)(%s)' % (ctype(tt), a)
        if op == 'uitofp': return '(%s)(%s)' % (ctype(tt), a)
        if op == 'sitofp': return '(%s)%s' % (ctype(tt), s.sx(a, ft.n))
        if op == 'fptoui': return s.mask('(%s)(%s)' % (ctype(tt), a), tt.n)
        if op == 'fptosi': return s.mask('(%s)(%s)(%s)' % (ctype(tt), csint(tt.n), a), tt.n)
        raise ValueError(op)

    def defs(s):
        f = s.cur
        if getattr(f, '_defs', None) is None:
            f._defs = {}
            for lbl, ins in f.blocks:
                for I in ins:
                    if I['dst']: f._defs[I['dst']] = I
        return f._defs

    def nuses(s, name):
        f = s.cur
        if getattr(f, '_nuses', None) is None:
            f._nuses = {}
            def walk(x):
                if isinstance(x, tuple):
                    if len(x) == 2 and x[0] == 'ref' and isinstance(x[1], str): f._nuses[x[1]] = f._nuses.get(x[1], 0) + 1
                    else:
                        for y in x: walk(y)
                elif isinstance(x, (list,)):
                    for y in x: walk(y)
                elif isinstance(x, dict):
                    for k, y in x.items():
                        if k != 'dst': walk(y)
            for lbl, ins in f.blocks:
                for I in ins: walk(I)
        return f._nuses.get(name, 0)

    def vslot(s, cal):
        """if callee = load(gep(load(obj), k)) return byte offset k*8 of the vtable slot, else None"""
        D = s.defs()
        def strip(v):
            while v[0] == 'ref' and v[1] in D and D[v[1]]['op'] == 'bitcast': v = D[v[1]]['a']
            return v
        v = strip(cal)
        if v[0] != 'ref' or v[1] not in D or D[v[1]]['op'] != 'load': return None
        p = strip(D[v[1]]['p'])
        off = 0
        if p[0] == 'ref' and p[1] in D and D[p[1]]['op'] == 'getelementptr':
            g = D[p[1]]
            if len(g['idx']) != 1 or g['idx'][0][1][0] != 'iconst': return None
            off = g['idx'][0][1][1] * size_of(g['bt'])
            p = strip(g['p'])
        if p[0] == 'ref' and p[1] in D and D[p[1]]['op'] == 'load': return off
        return None

    def vtable_candidates(s, slot):
        out = set()
        for gname, g in s.m.globals.items():
            if not gname.lstrip('@"').startswith('_ZTV') or g['init'] is None: continue
            # flatten pointer entries
            ents = []
            def flat(v):
                if v[0] == 'agg':
                    for et, ev in v[1]: flat(ev)
                else: ents.append(v)
            flat(g['init'])
            aps = set(int(x) for x in re.findall(re.escape(gname) + r', i64 0, (?:inrange )?i32 0, i64 ([0-9]+)\)', s.m.text)) or {2}
            for ap in aps:
                k = ap + slot // 8
                if k < len(ents):
                    e = ents[k]
                    while e[0] == 'cast': e = e[3]
                    if e[0] == 'ref': out.add(e[1])
        return out

    def sig_of(s, n):
        if n in s.m.funcs:
            f = s.m.funcs[n]; return (repr_full(f.ret), tuple(repr_full(t) for t, _ in f.params))
        ft = s.m.decls[n]; return (repr_full(ft.ret), tuple(repr_full(t) for t in ft.args))

    def fname(s, n):
        return s.cfg.get('rename', {}).get(n[1:], 'F_' + mangle(n) if n in s.m.funcs else 'X_' + mangle(n))

    # ---- function body
    def emit_function(s, f):
        o = []
        ret = ctype(f.ret)
        ps = ', '.join('%s v_%s' % (ctype(t), mangle(n)) for t, n in f.params) or 'void'
        o.append('%s %s(%s) {' % (ret, s.fname(f.name), ps))
        # declare all SSA values
        decl = {}
        for lbl, ins in f.blocks:
            for I in ins:
                if I['dst']:
                    decl[I['dst']] = s.result_type(I)
        for d, t in decl.items():
            if isinstance(t, Void): continue
            o.append('  %s v_%s;' % (ctype(t), mangle(d)))
        phis = {}  # block -> list of phi instrs
        for lbl, ins in f.blocks:
            phis[lbl] = [I for I in ins if I['op'] == 'phi']
        for d, t in decl.items():
            pass
        for lbl, ins in f.blocks:
            for I in phis[lbl]:
                o.append('  %s t_%s;' % (ctype(I['ty']), mangle(I['dst'])))
        s.cur = f
        s.phis = phis
        s.alloca_decls = []
        decl_pos = len(o)
        zero_ret = '' if isinstance(f.ret, Void) else ' ' + s.val(('zero', f.ret), f.ret)
        s.zero_ret = zero_ret
        for lbl, ins in f.blocks:
            o.append(' L_%s: ;' % mangle(lbl))
            for I in ins:
                if I['op'] == 'phi': continue
                try:
                    s.emit_instr(I, lbl, o)
                except Exception as e:
                    raise RuntimeError('%s in %s: %s\n  %s' % (type(e).__name__, f.name, e, I['src']))
        o[decl_pos:decl_pos] = s.alloca_decls
        o.append('}')
        return o

    def result_type(s, I):
        op = I['op']
        if op in ('icmp', 'fcmp'):
            if isinstance(I['ty'], Vec): return Vec(I['ty'].n, Int(1))
            return Int(1)
        if op in ('call', 'invoke'): return I['rt']
        if op in ('alloca', 'getelementptr'): return Ptr(Int(8))
        if 'tt' in I: return I['tt']
        if op == 'extractvalue':
            t = I['ty']
            for i in I['idx']: t = t.els[i] if isinstance(t, Struct) else t.el
            return t
        if op == 'extractelement': return I['ty'].el
        if op == 'cmpxchg': return Struct([I['ty'], Int(1)])
        if op == 'shufflevector': return Vec(I['mt'].n, I['ty'].el)
        return I['ty']

    def goto(s, frm, to, o, ind='    '):
        ph = s.phis.get(to, [])
        if ph:
            for I in ph:
                v = [x for x, l in I['inc'] if l == frm]
                if not v: raise ValueError('phi without incoming from %s in %s' % (frm, to))
                o.append('%st_%s = %s;' % (ind, mangle(I['dst']), s.val(v[0], I['ty'])))
            for I in ph:
                o.append('%sv_%s = t_%s;' % (ind, mangle(I['dst']), mangle(I['dst'])))
        o.append('%sgoto L_%s;' % (ind, mangle(to)))

    def emit_instr(s, I, lbl, o):
        op = I['op']; d = 'v_' + mangle(I['dst']) if I['dst'] else None
        V = s.val
        chk = s.cfg.get('checks', True)
        if op in ('add', 'sub', 'mul', 'udiv', 'sdiv', 'urem', 'srem', 'and', 'or', 'xor', 'shl', 'lshr', 'ashr', 'fadd', 'fsub', 'fmul', 'fdiv', 'frem'):
            t = I['ty']
            if op == 'sub' and isinstance(t, Int) and t.n == 64:
                # pointer difference: sub(ptrtoint p, ptrtoint q) -> vp_ptrdiff(p, q) (same value as the two address-model calls; lets the
                # checker fold the difference of two pointers into one object, e.g. std::vector::size(), to a constant)
                D = s.defs()
                def pti(v):
                    if v[0] == 'ref' and v[1] in D and D[v[1]]['op'] == 'ptrtoint' and isinstance(D[v[1]]['ft'], Ptr) and D[v[1]]['tt'].n == 64: return (D[v[1]]['a'], D[v[1]]['ft'])
                    return None
                pa, pb = pti(I['a']), pti(I['b'])
                if pa and pb:
                    o.append('    %s = vp_ptrdiff(%s, %s);' % (d, V(pa[0], pa[1]), V(pb[0], pb[1])))
                    return
            a = V(I['a'], t); b = V(I['b'], t)
            if chk and isinstance(t, Int):
                n = t.n
                if op in ('udiv', 'urem', 'sdiv', 'srem'):
                    o.append('    VP_CHECK(%s != 0, "ub.div_by_zero");' % b)
                    if op in ('sdiv', 'srem'):
                        o.append('    VP_CHECK(!(%s == -1 && %s == %s), "ub.sdiv_overflow");' % (s.sx(b, n), s.sx(a, n), '(%s)((%s)1 << %d)' % (csint(n), cint(n), n-1)))
                if op in ('shl', 'lshr', 'ashr'):
                    # a shift by >= width yields poison (not immediate UB; clang speculates such shifts): model as an arbitrary value
                    o.append('    if (%s < %d) { %s = %s; } else { %s = %s; }' % (b, n, d, s.binop(op, t, a, b), d, s.nondet(t)))
                    return
                if 'nsw' in I['flags'] and op in ('add', 'sub', 'mul') and n <= 64:
                    W = '__int128' if n > 32 else 'int64_t'
                    e = '((%s)%s %s (%s)%s)' % (W, s.sx(a, n), {'add': '+', 'sub': '-', 'mul': '*'}[op], W, s.sx(b, n))
                    o.append('    VP_CHECK_NSW(%s >= -((%s)1 << %d) && %s < ((%s)1 << %d), "ub.signed_overflow");' % (e, W, n-1, e, W, n-1))
            o.append('    %s = %s;' % (d, s.binop(op, t, a, b)))
        elif op == 'fneg':
            o.append('    %s = -%s;' % (d, V(I['a'], I['ty'])))
        elif op == 'icmp':
            t = I['ty']; a = V(I['a'], t); b = V(I['b'], t); p = I['pred']
            if isinstance(t, Ptr):
                if p in ('eq', 'ne'):
                    o.append('    %s = (%s %s %s);' % (d, a, '==' if p == 'eq' else '!=', b))
                else:
                    cop = {'ult': '<', 'ule': '<=', 'ugt': '>', 'uge': '>=', 'slt': '<', 'sle': '<=', 'sgt': '>', 'sge': '>='}[p]
                    o.append('    %s = (vp_ptrtoint(%s) %s vp_ptrtoint(%s));' % (d, a, cop, b))
            else:
                n = t.n
                if p in ('eq', 'ne'): e = '(%s %s %s)' % (a, '==' if p == 'eq' else '!=', b)
                elif p[0] == 'u': e = '(%s %s %s)' % (a, {'ult': '<', 'ule': '<=', 'ugt': '>', 'uge': '>='}[p], b)
                else: e = '(%s %s %s)' % (s.sx(a, n), {'slt': '<', 'sle': '<=', 'sgt': '>', 'sge': '>='}[p], s.sx(b, n))
                o.append('    %s = %s;' % (d, e))
        elif op == 'fcmp':
            t = I['ty']; a = V(I['a'], t); b = V(I['b'], t); p = I['pred']
            un = '(%s != %s || %s != %s)' % (a, a, b, b)
            base = {'eq': '==', 'gt': '>', 'ge': '>=', 'lt': '<', 'le': '<=', 'ne': '!='}
            if p == 'true': e = '1'
            elif p == 'false': e = '0'
            elif p == 'ord': e = '!%s' % un
            elif p == 'uno': e = un
            elif p[0] == 'o': e = '(!%s && %s %s %s)' % (un, a, base[p[1:]], b)
            else: e = '(%s || %s %s %s)' % (un, a, base[p[1:]], b)
            o.append('    %s = %s;' % (d, e))
        elif op in ('trunc', 'zext', 'sext', 'fptrunc', 'fpext', 'fptoui', 'fptosi', 'uitofp', 'sitofp', 'ptrtoint', 'inttoptr', 'bitcast', 'addrspacecast'):
            a = V(I['a'], I['ft'])
            if chk and op in ('fptoui', 'fptosi'):
                # out-of-range float->int conversion yields poison (clang speculates it under a select): arbitrary value
                n = I['tt'].n
                if op == 'fptoui': cond = '(%s > -1.0 && %s < %s)' % (a, a, float.hex(2.0 ** n))
                else: cond = '(%s > %s && %s < %s)' % (a, float.hex(-(2.0 ** (n-1)) - 1), a, float.hex(2.0 ** (n-1)))
                o.append('    if %s { %s = %s; } else { %s = %s; }' % (cond, d, s.cast(op, I['ft'], a, I['tt']), d, s.nondet(I['tt'])))
                return
            o.append('    %s = %s;' % (d, s.cast(op, I['ft'], a, I['tt'])))
        elif op == 'select':
            o.append('    %s = %s ? %s : %s;' % (d, V(I['c'], I['ct']), V(I['a'], I['ty']), V(I['b'], I['ty'])))
        elif op == 'alloca':
            t = I['ty']; sz = size_of(t)
            al = max(I.get('align', 1), 1)
            nm = 'a_' + mangle(I['dst'])
            if I['n'] is not None and I['n'][0] != 'iconst':
                o.append('    %s = vp_alloca((uint64_t)%s * %d);' % (d, V(I['n'], Int(64)), sz))
            else:
                cnt = I['n'][1] if I['n'] else 1
                s.alloca_decls.append('  uint8_t %s[%d] __attribute__((aligned(%d)));' % (nm, max(sz * cnt, 1), al))
                o.append('    %s = %s;' % (d, nm))
        elif op == 'load':
            t = I['ty']; p = V(I['p'], Ptr(t))
            o.append('    %s = %s;' % (d, s.load(t, p)))
        elif op == 'store':
            t = I['ty']
            if isinstance(t, Int) and t.n == 64 and I['v'][0] == 'ref':
                # a pointer stored through an integer slot (clang copies a one-pointer struct, e.g. a stored reference, as i64): keep it a
                # pointer store when the integer has no other use, so that the later pointer-typed load yields a dereferenceable pointer
                D = s.defs(); J = D.get(I['v'][1])
                if J is not None and J['op'] == 'ptrtoint' and isinstance(J['ft'], Ptr) and s.nuses(I['v'][1]) == 1:
                    o.append('    *(uint8_t**)(%s) = (uint8_t*)(%s);' % (V(I['p'], Ptr(t)), V(J['a'], J['ft'])))
                    return
            p = V(I['p'], Ptr(t)); v = V(I['v'], t)
            o.append('    %s;' % s.store(t, p, v))
        elif op == 'getelementptr':
            o.append('    %s = %s + (%s);' % (d, V(I['p'], I['pt']), s.gep_off(I['bt'], I['idx'])))
        elif op == 'br':
            if I['cond'] is None:
                s.goto(lbl, I['t'], o)
            else:
                o.append('    if (%s) {' % V(I['cond'], Int(1)))
                s.goto(lbl, I['t'], o, '      ')
                o.append('    } else {')
                s.goto(lbl, I['f'], o, '      ')
                o.append('    }')
        elif op == 'switch':
            t = I['ty']
            o.append('    switch (%s) {' % V(I['v'], t))
            for cv, l in I['cases']:
                o.append('      case %s: {' % V(cv, t)); s.goto(lbl, l, o, '        '); o.append('      }')
            o.append('      default: {'); s.goto(lbl, I['default'], o, '        '); o.append('      }')
            o.append('    }')
        elif op == 'ret':
            if I['v'] is None: o.append('    return;')
            else: o.append('    return %s;' % V(I['v'], I['ty']))
        elif op in ('call', 'invoke'):
            s.emit_call(I, lbl, o)
        elif op == 'landingpad':
            # { i8*, i32 }
            sel = ['0']
            parts = []
            for kind, cv in I['clauses']:
                if kind != 'catch': continue
                if cv[0] == 'null': parts.append(('1', '1'))
                else:
                    ti = V(cv, Ptr(Int(8)))
                    s.typeinfo(ti)
                    parts.append(('vp_exc_matches(%s)' % ti, 'vp_typeid_for(%s)' % ti))
            e = '0'
            for cond, tid in reversed(parts):
                e = '(%s ? %s : %s)' % (cond, tid, e)
            o.append('    %s.f0 = vp_exc_obj; %s.f1 = (uint32_t)%s; vp_exc_pending = 0;' % (d, d, e))
        elif op == 'resume':
            o.append('    vp_exc_pending = 1; return%s;' % s.zero_ret)
        elif op == 'unreachable':
            o.append('    VP_CHECK(0, "ub.unreachable"); __CPROVER_assume(0);')
        elif op == 'extractvalue':
            e = V(I['a'], I['ty']); t = I['ty']
            for i in I['idx']:
                if isinstance(t, Struct): e += '.f%d' % i; t = t.els[i]
                else: e += '.e[%d]' % i; t = t.el
            o.append('    %s = %s;' % (d, e))
        elif op == 'insertvalue':
            o.append('    %s = %s;' % (d, V(I['a'], I['ty'])))
            e = d; t = I['ty']
            for i in I['idx']:
                if isinstance(t, Struct): e += '.f%d' % i; t = t.els[i]
                else: e += '.e[%d]' % i; t = t.el
            o.append('    %s = %s;' % (e, V(I['b'], I['et'])))
        elif op == 'extractelement':
            o.append('    %s = %s.e[%s];' % (d, V(I['a'], I['ty']), V(I['i'], Int(64))))
        elif op == 'insertelement':
            o.append('    %s = %s; %s.e[%s] = %s;' % (d, V(I['a'], I['ty']), d, V(I['i'], Int(64)), V(I['b'], I['et'])))
        elif op == 'shufflevector':
            t = I['ty']; a = V(I['a'], t); b = V(I['b'], t)
            mk = I['mask']
            if mk[0] == 'zero': idxs = [0] * I['mt'].n
            elif mk[0] == 'undef': idxs = [0] * I['mt'].n
            else: idxs = [(ev[1] if ev[0] == 'iconst' else 0) for et, ev in mk[1]]
            for k, ix in enumerate(idxs):
                src = ('%s.e[%d]' % (a, ix)) if ix < t.n else ('%s.e[%d]' % (b, ix - t.n))
                o.append('    %s.e[%d] = %s;' % (d, k, src))
        elif op == 'atomicrmw':
            t = I['ty']; p = V(I['p'], Ptr(t)); v = V(I['v'], t)
            o.append('    %s = %s;' % (d, s.load(t, p)))
            rop = I['rop']
            if rop == 'xchg': nv = v
            else: nv = s.binop({'add': 'add', 'sub': 'sub', 'and': 'and', 'or': 'or', 'xor': 'xor'}[rop], t, d, v)
            o.append('    %s;' % s.store(t, p, nv))
        elif op == 'cmpxchg':
            t = I['ty']; p = V(I['p'], Ptr(t))
            o.append('    %s.f0 = %s; %s.f1 = (%s.f0 == %s); if (%s.f1) { %s; }' % (d, s.load(t, p), d, d, V(I['c'], t), d, s.store(t, p, V(I['n'], t))))
        elif op == 'fence':
            pass
        else:
            raise ValueError('emit %s' % op)

    def load(s, t, p):
        if isinstance(t, Int) and t.n not in (8, 16, 32, 64, 128):
            nb = (t.n + 7) // 8
            parts = ['((%s)(%s)[%d] << %d)' % (cint(t.n), p, i, 8 * i) for i in range(nb)]
            return s.mask('(' + ' | '.join(parts) + ')', t.n)
        return '(*(%s*)(%s))' % (ctype(t), p)
    def store(s, t, p, v):
        if isinstance(t, Int) and t.n not in (8, 16, 32, 64, 128):
            nb = (t.n + 7) // 8
            return '{ %s tmp_ = %s; uint8_t* p_ = %s; %s }' % (cint(t.n), v, p, ' '.join('p_[%d] = (uint8_t)(tmp_ >> %d);' % (i, 8 * i) for i in range(nb)))
        return '*(%s*)(%s) = %s' % (ctype(t), p, v)

    def emit_call(s, I, lbl, o):
        d = 'v_' + mangle(I['dst']) if I['dst'] else None
        cal = I['callee']
        args = ['0' if isinstance(at, Meta) else s.val(av, at) for at, av in I['args']]
        rt = I['rt']
        name = cal[1] if cal[0] == 'ref' and cal[1][0] == '@' else None
        maythrow = True
        stmt = None
        if name and name.startswith('@llvm.'):
            maythrow = False
            b = name[6:]
            if b.startswith(('lifetime.', 'dbg.', 'experimental.noalias', 'assume', 'invariant.', 'prefetch', 'donothing', 'var.annotation')): stmt = ''
            elif b.startswith('memcpy'): stmt = 'vp_memcpy(%s, %s, (uint64_t)%s)' % tuple(args[:3])
            elif b.startswith('memmove'): stmt = 'vp_memmove(%s, %s, (uint64_t)%s)' % tuple(args[:3])
            elif b.startswith('memset'): stmt = 'vp_memset(%s, %s, (uint64_t)%s)' % tuple(args[:3])
            elif b.startswith('trap'): stmt = 'VP_CHECK(0, "ub.trap"); __CPROVER_assume(0)'
            elif b.startswith('eh.typeid.for'):
                s.typeinfo(args[0]); stmt = '%s = vp_typeid_for(%s)' % (d, args[0])
            elif b.startswith(('smax', 'smin', 'umax', 'umin')):
                n = rt.n; a, c = args
                if b[0] == 's': a2, c2 = s.sx(a, n), s.sx(c, n)
                else: a2, c2 = a, c
                stmt = '%s = (%s %s %s) ? %s : %s' % (d, a2, '>' if b[1:4] == 'max' else '<', c2, a, c)
            elif b.startswith('abs.'):
                stmt = '%s = %s' % (d, s.mask('(%s)(%s < 0 ? -%s : %s)' % (ctype(rt), s.sx(args[0], rt.n), s.sx(args[0], rt.n), s.sx(args[0], rt.n)), rt.n))
            elif b.startswith(('fshl', 'fshr')):
                n = rt.n; a, c, sh = args
                W = cint(2 * n)
                if b.startswith('fshl'): stmt = '%s = (%s)(((((%s)%s << %d) | (%s)%s) << (%s %% %d)) >> %d)' % (d, ctype(rt), W, a, n, W, c, sh, n, n)
                else: stmt = '%s = (%s)((((%s)%s << %d) | (%s)%s) >> (%s %% %d))' % (d, ctype(rt), W, a, n, W, c, sh, n)
            elif b.startswith('fmuladd') or b.startswith('fma.'):
                stmt = '%s = (%s * %s) + %s' % (d, args[0], args[1], args[2])
            elif b.startswith(('fabs', 'floor', 'ceil', 'trunc', 'round', 'rint', 'nearbyint', 'sqrt', 'copysign', 'minnum', 'maxnum')):
                fnm = b.split('.')[0]
                fnm = {'minnum': 'fmin', 'maxnum': 'fmax'}.get(fnm, fnm)
                suf = 'f' if rt.k == 'float' else ''
                stmt = '%s = %s%s(%s)' % (d, fnm, suf, ', '.join(args))
            elif b.startswith(('ctpop', 'ctlz', 'cttz', 'bswap', 'bitreverse')):
                stmt = '%s = vp_%s%d(%s)' % (d, b.split('.')[0], rt.n, args[0])
            elif b.startswith(('uadd.with.overflow', 'usub.with.overflow', 'umul.with.overflow', 'sadd.with.overflow', 'ssub.with.overflow', 'smul.with.overflow')):
                n = rt.els[0].n; kind = b[:4]
                W = 'unsigned __int128' if n > 32 else 'uint64_t'
                SW = '__int128' if n > 32 else 'int64_t'
                opc = {'add': '+', 'sub': '-', 'mul': '*'}[kind[1:]]
                if kind[0] == 'u':
                    o.append('    { %s w_ = (%s)%s %s (%s)%s; %s.f0 = (%s)w_; %s.f1 = (w_ >> %d) != 0; }' % (W, W, args[0], opc, W, args[1], d, cint(n), d, n) if kind != 'usub' else
                             '    { %s.f0 = (%s)(%s - %s); %s.f1 = %s < %s; }' % (d, cint(n), args[0], args[1], d, args[0], args[1]))
                else:
                    o.append('    { %s w_ = (%s)%s %s (%s)%s; %s.f0 = (%s)w_; %s.f1 = (w_ != (%s)(%s)w_); }' % (SW, SW, s.sx(args[0], n), opc, SW, s.sx(args[1], n), d, cint(n), d, SW, csint(n)))
                stmt = ''
            elif b.startswith('stacksave'): stmt = '%s = 0' % d
            elif b.startswith('stackrestore'): stmt = ''
            elif b.startswith('expect'): stmt = '%s = %s' % (d, args[0])
            elif b.startswith('is.constant'): stmt = '%s = 0' % d
            elif b.startswith('objectsize'): stmt = '%s = (%s)-1' % (d, ctype(rt))
            else: raise ValueError('intrinsic %s' % name)
        else:
            if name in ('@vp_assert', '@vp_assume'):
                maythrow = False
                if name == '@vp_assume':
                    o.append('    __CPROVER_assume(%s);' % args[0]); return s.after_call(I, lbl, o, False)
                msg = 'assert'
                mv = I['args'][1][1]
                g = None
                if mv[0] == 'gep' and mv[2][0] == 'ref': g = s.m.globals.get(mv[2][1])
                if mv[0] == 'ref': g = s.m.globals.get(mv[1])
                if g and g['init'] and g['init'][0] == 'bytes': msg = g['init'][1].rstrip(b'\0').decode()
                o.append('    VP_CHECK(%s, "prop.%s");' % (args[0], msg)); return s.after_call(I, lbl, o, False)
            if name and name.startswith('@vp_'):
                maythrow = False
            if name:
                s.extern_used.add(name)
                fn = s.fname(name)
                if name in s.cfg.get('nothrow', ()): maythrow = False
            else:
                # indirect call: explicit dispatch over address-taken functions of identical signature
                sig = (repr_full(rt), tuple(repr_full(at) for at, av in I['args']))
                fpv = s.val(cal, Ptr(Int(8)))
                cands = [n for n in s.addr_taken if s.sig_of(n) == sig]
                slot = s.vslot(cal)
                if slot is not None:
                    vc = s.vtable_candidates(slot)
                    cands = [n for n in cands if n in vc]
                tmp = 'fp_%d' % len(o)
                o.append('    { uint8_t* %s = %s;' % (tmp, fpv))
                first = True
                for n in cands:
                    s.extern_used.add(n)
                    call = '%s(%s)' % (s.fname(n), ', '.join(args))
                    st2 = call if (d is None or isinstance(rt, Void)) else '%s = %s' % (d, call)
                    o.append('      %sif (%s == (uint8_t*)&%s) { %s; }' % ('' if first else 'else ', tmp, s.fname(n), st2)); first = False
                o.append('      %s{ VP_CHECK(0, "env.indirect_call_unknown_target"); __CPROVER_assume(0); } }' % ('' if first else 'else '))
                s.after_call(I, lbl, o, True)
                return
            call = '%s(%s)' % (fn, ', '.join(args))
            stmt = call if (d is None or isinstance(rt, Void)) else '%s = %s' % (d, call)
        if stmt: o.append('    %s;' % stmt)
        s.after_call(I, lbl, o, maythrow)

    def after_call(s, I, lbl, o, maythrow):
        if I['op'] == 'invoke':
            if maythrow:
                o.append('    if (vp_exc_pending) {'); s.goto(lbl, I['lp'], o, '      '); o.append('    }')
            s.goto(lbl, I['ok'], o)
        elif maythrow:
            o.append('    if (vp_exc_pending) return%s;' % s.zero_ret)

    # ---- globals
    def emit_global_init(s, name, g, o):
        """globals are typed C objects mirroring the LLVM layout, with static initialisers"""
        t = g['type']
        nm = 'G_' + mangle(name)
        if isinstance(t, (Int, Flt, Ptr)):
            init = ' = %s' % s.static_init(t, g['init']) if g['init'] is not None else ''
            s.gfwd.append('extern %s %s;' % (ctype(t), nm))
            s.gdecl.append('%s %s%s;' % (ctype(t), nm, init))
        else:
            s.gfwd.append('extern %s %s;' % (ctype(t), nm))
            init = ' = %s' % s.static_init(t, g['init']) if g['init'] is not None else ''
            s.gdecl.append('%s %s%s;' % (ctype(t), nm, init))
            s.gdecl.append('_Static_assert(sizeof(%s) == %d, "layout %s");' % (nm, max(size_of(t), 1) if size_of(t) else 1, nm))

    def static_init(s, t, v):
        k = v[0]
        if k in ('zero', 'undef'):
            return '{0}' if is_agg(t) else '0'
        if k == 'bytes':
            return '{{%s}}' % ','.join(str(b) for b in v[1])
        if k == 'agg':
            if isinstance(t, Struct):
                return '{%s}' % ', '.join(s.static_init(et, ev) for et, ev in v[1])
            return '{{%s}}' % ', '.join(s.static_init(et, ev) for et, ev in v[1])
        return s.val(v, t)

    def init_bytes(s, nm, off, t, v, o):
        k = v[0]
        if k == 'zero' or k == 'undef': return
        if k == 'bytes':
            for i, b in enumerate(v[1]):
                if b: o.append('  %s[%d] = %d;' % (nm, off + i, b))
            return
        if k == 'agg':
            if isinstance(t, Struct):
                for i, (et, ev) in enumerate(v[1]): s.init_bytes(nm, off + field_off(t, i), et, ev, o)
            else:
                es = size_of(t.el)
                for i, (et, ev) in enumerate(v[1]): s.init_bytes(nm, off + i * es, et, ev, o)
            return
        if k == 'null': return
        if isinstance(t, Int) and k == 'iconst' and v[1] == 0: return
        o.append('  %s;' % s.store(t, '(%s + %d)' % (nm, off), s.val(v, t)))

    def run(s, roots):
        m = s.m
        # reachable functions from roots
        reach = []
        seen = set()
        work = list(roots)
        gseen = set()
        def scan_val(v):
            if not isinstance(v, tuple): return
            if v and v[0] == 'ref' and isinstance(v[1], str) and v[1][0] == '@':
                n = v[1]
                if n in m.funcs and n not in seen: work.append(n)
                if n in m.globals and n not in gseen:
                    gseen.add(n)
                    gi = m.globals[n]['init']
                    if gi is not None: scan_val(gi)
            for x in v:
                if isinstance(x, tuple): scan_val(x)
                elif isinstance(x, list):
                    for y in x:
                        if isinstance(y, tuple): scan_val(y)
        while work:
            n = work.pop()
            if n in seen or n not in m.funcs: continue
            seen.add(n); reach.append(n)
            for lbl, ins in m.funcs[n].blocks:
                for I in ins:
                    for key, x in I.items():
                        if isinstance(x, tuple): scan_val(x)
                        elif isinstance(x, list):
                            for y in x:
                                if isinstance(y, tuple): scan_val(y)
        s.addr_taken = []
        def scan_at(v):
            if not isinstance(v, tuple): return
            if v and v[0] == 'ref' and isinstance(v[1], str) and v[1][0] == '@' and (v[1] in m.funcs or v[1] in m.decls):
                if v[1] not in s.addr_taken: s.addr_taken.append(v[1])
            for x in v:
                if isinstance(x, tuple): scan_at(x)
                elif isinstance(x, list):
                    for y in x:
                        if isinstance(y, tuple): scan_at(y)
        for n in gseen:
            gi = m.globals[n]['init']
            if gi is not None: scan_at(gi)
        for n in seen:
            for lbl, ins in m.funcs[n].blocks:
                for I in ins:
                    for key, x in I.items():
                        if key == 'callee' and isinstance(x, tuple) and x[0] == 'ref': continue
                        if isinstance(x, tuple): scan_at(x)
                        elif isinstance(x, list):
                            for y in x:
                                if isinstance(y, tuple): scan_at(y)
        body = []
        for n in m.order:
            if n in seen: body += s.emit_function(m.funcs[n]) + ['']
        s.gdecl = []; s.gfwd = []
        known = s.cfg.get('known', None)
        unmodelled = []
        ginit = ['void vp_init_globals(void) {']
        for n in sorted(gseen):
            g = m.globals[n]
            if g['ext']:
                gn = 'G_' + mangle(n)
                if known is not None and gn not in known:
                    unmodelled.append(gn)
                    s.gfwd.append('uint8_t %s[256]; /* unmodelled external global */' % gn)
                else:
                    s.gfwd.append('extern uint8_t %s[];' % gn)
            else:
                s.emit_global_init(n, g, ginit)
        ginit.append('}')
        protos = []
        for n in sorted(seen):
            f = m.funcs[n]
            protos.append('%s %s(%s);' % (ctype(f.ret), s.fname(n), ', '.join(ctype(t) for t, _ in f.params) or 'void'))
        ext = []
        stubs = []
        for n in sorted(s.extern_used):
            if n in m.funcs or n.startswith('@llvm.'): continue
            ft = m.decls.get(n)
            if ft is None: continue
            fn = s.fname(n)
            if known is not None and fn not in known:
                unmodelled.append(fn)
                ps = ', '.join('%s a%d' % (ctype(t), i) for i, t in enumerate(ft.args)) + (', ...' if ft.var and ft.args else '') or 'void'
                zr = '' if isinstance(ft.ret, Void) else ' return %s;' % s.val(('zero', ft.ret), ft.ret)
                stubs.append('%s %s(%s) { VP_CHECK(0, "env.unmodelled_external:%s"); __CPROVER_assume(0);%s }' % (ctype(ft.ret), fn, ps, fn[2:], zr))
            else:
                ext.append((n, '%s %s(%s);' % (ctype(ft.ret), fn, ', '.join(ctype(t) for t in ft.args) + (', ...' if ft.var and ft.args else '') or 'void')))
        fids = getattr(s, 'fids', {})
        ftab = ['uint8_t* vp_func_from_id(uint64_t x) {'] + ['  if (x == %dULL) return (uint8_t*)&%s;' % (i, s.fname(n)) for n, i in fids.items()] + ['  return 0; }',
                'uint64_t vp_func_to_id(uint8_t* p) {'] + ['  if (p == (uint8_t*)&%s) return %dULL;' % (s.fname(n), i) for n, i in fids.items()] + ['  return 0; }']
        tid = ftab + ['uint32_t vp_typeid_for(uint8_t* ti) {'] + ['  if (ti == %s) return %d;' % (e, k) for e, k in s.typeids.items()] + ['  return 0; }']
        hdr = ['#include "vp_rt.h"']
        hdr += [d[1] for d in AGG_DECLS.values()]
        nd = ['%s nondet_%s(void);' % (d[0], d[0]) for d in AGG_DECLS.values()]
        # outside the model checker (translator self-test builds the generated C with gcc) an undef aggregate is all zero
        nd += ['#ifndef __CPROVER__'] + ['%s nondet_%s(void) { %s z; vp_memset((uint8_t*)&z, 0, sizeof z); return z; }' % (d[0], d[0], d[0]) for d in AGG_DECLS.values()] + ['#endif']
        text = '\n'.join(hdr + nd + ['/* externals */'] + [e[1] for e in ext] + ['/* prototypes */'] + protos + s.gfwd + s.gdecl + ['/* stubs for unmodelled externals */'] + stubs + [''] + tid + [''] + body + ginit) + '\n'
        meta = dict(functions=sorted(x[1:] for x in seen), externals=sorted(x[0][1:] for x in ext), unmodelled=unmodelled)
        return text, meta

def hexmask(n): return '0x%xULL' % ((1 << n) - 1) if n <= 64 else '((((unsigned __int128)1) << %d) - 1)' % n

def main():
    import argparse, os
    ap = argparse.ArgumentParser()
    ap.add_argument('ll'); ap.add_argument('--outdir', required=True); ap.add_argument('--root', action='append', default=[])
    ap.add_argument('--known', help='file listing the C symbols the runtime model defines (one per line)')
    a = ap.parse_args()
    cfg = {}
    if a.known: cfg['known'] = set(open(a.known).read().split())
    mod = parse_module(open(a.ll).read())
    roots = a.root or [n[1:] for n in mod.order if n.startswith('@h_')]
    for r in roots:
        AGG_DECLS.clear()
        em = Emit(mod, cfg)
        c, meta = em.run(['@' + r])
        open(os.path.join(a.outdir, r + '.c'), 'w').write(c)
        json.dump(meta, open(os.path.join(a.outdir, r + '.meta.json'), 'w'))

if __name__ == '__main__':
    main()
