#!/bin/bash
# usage: try.sh <harness.cpp relative to harness/> <entry> <unwind> <timeout_s> [-DX=Y ...] [-- extra cbmc args]
# development helper: one query by hand, with a memory cap
src=$1; entry=$2; unwind=$3; to=$4; shift 4
defs=(); extra=()
while [ $# -gt 0 ]; do if [ "$1" == "--" ]; then shift; extra=("$@"); break; fi; defs+=("$1"); shift; done
d=$(mktemp -d /tmp/gvtry.XXXX); cd $d
clang++-14 -std=c++14 -O1 -fno-vectorize -fno-slp-vectorize -fno-unroll-loops -ffp-contract=off -mllvm -disable-loop-idiom-all -DNDEBUG -DBOOSTORG_GIL_VERIF -w -g1 -S -emit-llvm -I${GV_REPO:-/repo}/include -I/verif/harness "${defs[@]}" /verif/harness/$src -o h.ll || exit 1
python3 /verif/tools/ll2c.py h.ll --outdir . --root $entry || exit 1
cat > main.c <<EOM
#include "vp_rt.h"
void F_$entry(void);
int main(void) { vp_rt_init(); vp_init_globals(); F_$entry();
  VP_CHECK(!vp_exc_pending, "exc.uncaught_exception_escapes_harness"); VP_ASSUME(!vp_exc_pending);
#ifdef VP_WITNESS
  __CPROVER_assert(0, "witness.reached_end");
#endif
  return 0; }
EOM
rts="/verif/rt/vp_rt.c"; for m in $GV_RT; do rts="$rts /verif/rt/rt_$m.c"; done
loops=$(cbmc $entry.c main.c $rts -I /verif/rt --show-loops 2>/dev/null | grep -oE "^Loop (vp_|X_)[A-Za-z0-9_]+\.[0-9]+" | sed 's/Loop //' | sed "s/\$/:${RTUNWIND:-260}/" | paste -sd,)
ulimit -v $((${MEMGB:-8}*1024*1024))
echo "dir $d"
/usr/bin/time -f "wall %e s, rss %M KB" timeout $to cbmc $entry.c main.c $rts -I /verif/rt --no-standard-checks --pointer-check --bounds-check --unwinding-assertions --object-bits 12 --unwind $unwind --drop-unused-functions --slice-formula --max-field-sensitivity-array-size 2048 --unwindset "$loops" "${extra[@]}" 2>&1 | grep -v "SUCCESS$" | tail -${TAIL:-15}
