#!/usr/bin/env python3
"""Validate one seeded defect and run a check against it.

  seedcheck.py <dir with patch.diff, demo.cpp, notes.json> <PID> [--only REGEX] [--tier quick|thorough] [--skip-suite] [--wt /tmp/seedwt]

Steps (all in a scratch worktree of /repo outside /repo and /verif, removed afterwards unless --keep):
  1. patch applies to a clean checkout of /repo HEAD
  2. demo.cpp passes without the patch and fails with it
  3. the pinned test suite builds and passes with the patch (unless --skip-suite)
  4. ./gv check PID with GV_REPO=<worktree> must report a VIOLATION (exit 1)
Writes <dir>/meta.json with what was run and the outcome.
"""
import sys, os, subprocess, json, argparse, shutil, time, re
def sh(cmd, cwd=None, timeout=None, env=None):
    p = subprocess.run(cmd, shell=isinstance(cmd, str), cwd=cwd, stdout=subprocess.PIPE, stderr=subprocess.STDOUT, timeout=timeout, env=env)
    return p.returncode, p.stdout.decode('utf-8', 'replace')
def main():
    ap = argparse.ArgumentParser()
    ap.add_argument('dir'); ap.add_argument('pid'); ap.add_argument('--only'); ap.add_argument('--tier', default='quick')
    ap.add_argument('--skip-suite', action='store_true'); ap.add_argument('--wt', default='/tmp/seedwt_%d' % os.getpid()); ap.add_argument('--keep', action='store_true')
    ap.add_argument('-j', default='8')
    a = ap.parse_args()
    d = os.path.abspath(a.dir); patch = os.path.join(d, 'patch.diff'); demo = os.path.join(d, 'demo.cpp')
    meta = dict(property=a.pid, ran=[], when=time.strftime('%Y-%m-%d %H:%M'))
    notes = {}
    if os.path.exists(os.path.join(d, 'notes.json')):
        try: notes = json.load(open(os.path.join(d, 'notes.json')))
        except ValueError: pass
    meta['needs'] = notes.get('needs'); meta['what'] = notes.get('what')
    rc, out = sh(['git', '-C', '/repo', 'worktree', 'add', '--detach', a.wt, 'HEAD'])
    if rc: print(out); sys.exit(2)
    try:
        # demo without the patch
        exe = os.path.join(a.wt, 'demo_bin')
        rc, out = sh('g++ -std=c++14 -w -I%s/include %s -o %s' % (a.wt, demo, exe)); meta['ran'].append('g++ demo.cpp (clean tree)')
        if rc: meta['demo_clean'] = 'build failed: ' + out[-400:]
        else:
            rc, out = sh([exe], timeout=120); meta['demo_clean'] = 'pass' if rc == 0 else 'FAIL rc=%d %s' % (rc, out[-200:])
        rc, out = sh(['git', '-C', a.wt, 'apply', patch]); meta['ran'].append('git apply patch.diff')
        meta['patch_applies'] = (rc == 0)
        if rc: print(out)
        else:
            rc, out = sh('g++ -std=c++14 -w -I%s/include %s -o %s' % (a.wt, demo, exe)); meta['ran'].append('g++ demo.cpp (patched tree)')
            if rc: meta['demo_patched'] = 'build failed: ' + out[-400:]
            else:
                try: rc, out = sh([exe], timeout=120)
                except subprocess.TimeoutExpired: rc, out = 124, 'timeout'
                meta['demo_patched'] = 'fails (rc=%d)' % rc if rc != 0 else 'PASSES (patch not observable)'
            if not a.skip_suite:
                cmd = 'cmake -G Ninja -B _build -DCMAKE_BUILD_TYPE=RelWithDebInfo >/dev/null 2>&1 && cmake --build _build -j %s 2>&1 | tail -2 && ctest --test-dir _build -j %s --timeout 900 2>&1 | tail -4' % (a.j, a.j)
                rc, out = sh(cmd, cwd=a.wt, timeout=3600); meta['ran'].append('cmake --build + ctest (patched tree)')
                m = re.search(r'(\d+)% tests passed, (\d+) tests failed out of (\d+)', out)
                meta['suite'] = m.group(0) if m else out[-300:]
            env = dict(os.environ, GV_REPO=a.wt)
            cmd = ['./gv', 'check', a.pid, '--tier', a.tier, '-j', a.j] + (['--only', a.only] if a.only else [])
            t0 = time.time()
            rc, out = sh(cmd, cwd='/verif', env=env, timeout=7200); meta['ran'].append('GV_REPO=<patched worktree> ' + ' '.join(cmd))
            viol = [l for l in out.split('\n') if l.startswith('VIOLATION')]
            meta['check_exit'] = rc; meta['check_wall_s'] = round(time.time() - t0)
            meta['violations'] = [re.sub(r'replay=\S+', '', v).strip() for v in viol[:12]]
            meta['other'] = [l[:200] for l in out.split('\n') if l.startswith(('UNCONFIRMED', 'VACUOUS', 'BOUND', 'BUILD-ERROR', 'INCONCLUSIVE'))][:8]
            meta['summary'] = [l for l in out.split('\n') if ' queries, ' in l][-1:]
            meta['caught'] = (rc == 1 and bool(viol))
    finally:
        if not a.keep: sh(['git', '-C', '/repo', 'worktree', 'remove', '--force', a.wt])
    json.dump(meta, open(os.path.join(d, 'meta.json'), 'w'), indent=1)
    print(json.dumps({k: meta.get(k) for k in ('property', 'demo_clean', 'demo_patched', 'suite', 'check_exit', 'caught', 'violations', 'other', 'summary')}, indent=1))
if __name__ == '__main__': main()
