#!/bin/bash
# usage: seedbatch.sh <lane-file>   each line: <seed id> <PID> <tier> <only-regex or -> [skip]
while read id pid tier only skip; do
  [ -z "$id" ] && continue
  args=""; [ "$only" != "-" ] && args="--only $only"; [ "$skip" == "skip" ] && args="$args --skip-suite"
  echo "=== $id $pid $tier $only $(date +%H:%M)"
  python3 /verif/tools/seedcheck.py /verif/seeded/$id $pid --tier $tier $args -j ${SJ:-5} --wt /tmp/seedwt_$id 2>&1 | tail -25
done < "$1"
