#!/bin/bash
# usage: seedbatch.sh <lane-file>   each line: <seed id> <PID> <tier> <only-regex or ->
while read id pid tier only; do
  [ -z "$id" ] && continue
  args=""; [ "$only" != "-" ] && args="--only $only"
  echo "=== $id $pid $tier $only $(date +%H:%M)"
  python3 /verif/tools/seedcheck.py /verif/seeded/$id $pid --tier $tier $args -j 5 --wt /tmp/seedwt_$id 2>&1 | tail -25
done < "$1"
