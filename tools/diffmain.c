/* translator validation: run the generated C natively (gcc) on a concrete input vector */
#include <stdio.h>
#include <stdlib.h>
#include <stdint.h>
#include <string.h>
static uint64_t in[65536]; static int nin, pos; static uint32_t par[512]; static int npar;
uint64_t vp_next_input(void) { return pos < nin ? in[pos++] : 0; }
uint32_t vp_native_param(uint32_t k) { return k < (uint32_t)npar ? par[k] : 0; }
void vp_fail(const char* m) { printf("VP_CHECK_FAIL %s\n", m); fflush(stdout); exit(3); }
void vp_assume_fail(void) { printf("VP_ASSUME_FAILED\n"); fflush(stdout); exit(4); }
void vp_init_globals(void); void vp_rt_init(void); void ENTRY(void);
int main(int argc, char** argv) {
  FILE* f = fopen(argv[1], "r"); unsigned long long v; while (f && fscanf(f, "%llu", &v) == 1) in[nin++] = v;
  const char* ps = getenv("VP_PARAMS"); if (ps) { char* c = (char*)ps; while (*c && npar < 512) { par[npar++] = (uint32_t)strtol(c, &c, 10); if (*c == ',') ++c; } }
  vp_rt_init(); vp_init_globals(); ENTRY();
  { extern int vp_exc_pending; if (vp_exc_pending) { printf("VP_UNCAUGHT_EXCEPTION\n"); return 6; } }
  printf("VP_DONE\n"); return 0; }
