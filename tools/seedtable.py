#!/usr/bin/env python3
"""print the DESIGN.md table rows for the seeded changes from seeded/<id>/{notes.json,meta.json}"""
import json, os, sys, re
root = os.path.join(os.path.dirname(os.path.abspath(__file__)), '..', 'seeded')
only = sys.argv[1:]
for d in sorted(os.listdir(root)):
    if only and d not in only: continue
    mp = os.path.join(root, d, 'meta.json')
    if not os.path.exists(mp): print('| %s | (no meta.json yet) | | |' % d); continue
    m = json.load(open(mp))
    what = (m.get('what') or '').replace('|', '/').replace('\n', ' ')
    if len(what) > 170: what = what[:170] + '…'
    if m.get('caught'):
        v = (m.get('violations') or [''])[0]
        q = re.search(r'query=(\S+)', v); l = re.search(r'label=([^)\s]+)', v)
        res = 'caught: `%s` (%s)' % (q.group(1) if q else '?', l.group(1) if l else '?')
    else: res = '**missed**'
    print('| %s | %s | %s | %s |' % (d, what, m.get('property'), res))
